// C16 — Address types: text round-trip, ordering and range arithmetic are exact.
// The real IPv4Address / IPv6Address / HWAddress<6> / AddressRange code runs under ASan/UBSan while an
// independent model (unsigned __int128 arithmetic, own strict text parsers/printers with a THREE-valued
// accept set) is compared after every single observation: every parse, every comparison operator, every
// contains() probe and every step of every range walk (walks run under an own step cap, so a walk that
// does not end is a verdict, not a hang).
#include "verif.h"
#include <sstream>
#include <tins/ip_address.h>
#include <tins/ipv6_address.h>
#include <tins/hw_address.h>
#include <tins/address_range.h>
#include <tins/exceptions.h>
#include <memory>
#include <algorithm>
#include <new>
using namespace Tins;
using namespace vf;
typedef unsigned __int128 u128;

static const size_t STEP_CAP = 70000;

static inline u128 maxv(unsigned W) { return W >= 128 ? ~(u128)0 : (((u128)1 << W) - 1); }
static std::string hx(u128 v, unsigned W) { std::string s; for (int i = (int)W / 4 - 1; i >= 0; --i) s += "0123456789abcdef"[(unsigned)(v >> (4 * i)) & 15]; return s; }
static u128 rnd128(Rng& r) { u128 a = r.next(); return (a << 64) | r.next(); }
static std::string vis(const std::string& s) { std::string o = "\""; size_t n = 0; for (unsigned char c : s) { if (++n > 200) { o += "...(+" + std::to_string(s.size() - 200) + ")"; break; } if (c < 0x20 || c >= 0x7f || c == '"' || c == '\\') { char b[8]; snprintf(b, sizeof b, "\\x%02x", c); o += b; } else o += (char)c; } return o + "\""; }
static std::vector<std::string> split(const std::string& x, char sep) { std::vector<std::string> g; size_t p = 0; for (;;) { size_t q = x.find(sep, p); g.push_back(x.substr(p, q == std::string::npos ? std::string::npos : q - p)); if (q == std::string::npos) break; p = q + 1; } return g; }
static bool isxd(unsigned char c) { return (c >= '0' && c <= '9') || (c >= 'a' && c <= 'f') || (c >= 'A' && c <= 'F'); }
static unsigned xv(unsigned char c) { return c <= '9' ? c - '0' : (c | 32) - 'a' + 10; }

// ---- three-valued text reference -------------------------------------------------------------
enum { ACC = 0, REJ = 1, DC = 2 };
struct Ref { int c; u128 v; std::string why; };

static Ref ref4_core(const std::string& s) {
    if (s.empty()) return {REJ, 0, "empty"};
    for (unsigned char ch : s) if (!((ch >= '0' && ch <= '9') || ch == '.')) return {REJ, 0, "alphabet"};
    std::vector<std::string> g = split(s, '.');
    for (auto& x : g) if (x.empty()) return {REJ, 0, "empty-group"};
    if (g.size() > 4) return {REJ, 0, "too-many-groups"};
    bool lead = false; u128 v = 0;
    for (auto& x : g) {
        size_t z = 0; while (z + 1 < x.size() && x[z] == '0') ++z;
        std::string t = x.substr(z); if (t.size() > 3) return {REJ, 0, "group-range"};
        unsigned n = (unsigned)atoi(t.c_str()); if (n > 255) return {REJ, 0, "group-range"};
        if (x.size() > 1 && x[0] == '0') lead = true;
        v = (v << 8) | n;
    }
    if (g.size() < 4) return {DC, 0, "few-groups"};
    if (lead) return {DC, 0, "leading-zero"};
    return {ACC, v, "canonical"};
}
// IPv4/IPv6 constructors take C strings: text after an embedded NUL is text all the same
template <class F> static Ref with_nul(const std::string& s, F core) {
    size_t z = s.find('\0'); if (z == std::string::npos) return core(s);
    Ref head = core(s.substr(0, z)); if (head.c == REJ) return head;
    return {REJ, 0, "embedded-nul"};
}
static Ref ref4(const std::string& s) { return with_nul(s, ref4_core); }

static Ref ref6_core(const std::string& s) {
    if (s.empty()) return {REJ, 0, "empty"};
    for (unsigned char ch : s) if (!(isxd(ch) || ch == ':' || ch == '.')) return {REJ, 0, "alphabet"};
    size_t dc = s.find("::"); bool has = dc != std::string::npos;
    if (has && s.find("::", dc + 1) != std::string::npos) return {REJ, 0, "multiple-compression"};
    std::string L = has ? s.substr(0, dc) : s, R = has ? s.substr(dc + 2) : std::string();
    std::vector<std::string> gl, gr; if (!L.empty()) gl = split(L, ':'); if (!R.empty()) gr = split(R, ':');
    std::vector<u16> vl, vr; bool dont = false;
    for (int side = 0; side < 2; ++side) {
        std::vector<std::string>& g = side ? gr : gl; std::vector<u16>& out = side ? vr : vl;
        for (size_t k = 0; k < g.size(); ++k) {
            const std::string& x = g[k];
            if (x.empty()) return {REJ, 0, "empty-group"};
            if (x.find('.') != std::string::npos) {
                bool at_end = (k + 1 == g.size()) && (side == 1 || !has);
                if (!at_end) return {REJ, 0, "v4-not-last"};
                Ref r4 = ref4_core(x);
                if (r4.c == REJ) return {REJ, 0, "v4-tail-" + r4.why};
                if (r4.c == DC) { dont = true; r4.v = 0; }
                out.push_back((u16)(r4.v >> 16)); out.push_back((u16)r4.v);
            } else {
                size_t z = 0; while (z + 1 < x.size() && x[z] == '0') ++z;
                if (x.size() - z > 4) return {REJ, 0, "group-range"};
                if (x.size() > 4) dont = true;
                unsigned v = 0; for (size_t i = z; i < x.size(); ++i) v = v * 16 + xv((unsigned char)x[i]);
                out.push_back((u16)v);
            }
        }
    }
    size_t n = vl.size() + vr.size();
    if (!has) { if (n < 8) return {REJ, 0, "too-few-groups"}; if (n > 8) return {REJ, 0, "too-many-groups"}; }
    else if (n > 7) return {REJ, 0, "too-many-groups"};
    if (dont) return {DC, 0, "lenient-digits"};
    u16 g8[8] = {0, 0, 0, 0, 0, 0, 0, 0};
    for (size_t i = 0; i < vl.size(); ++i) g8[i] = vl[i];
    for (size_t i = 0; i < vr.size(); ++i) g8[8 - vr.size() + i] = vr[i];
    u128 v = 0; for (int i = 0; i < 8; ++i) v = (v << 16) | g8[i];
    return {ACC, v, has ? "compressed" : "full"};
}
static Ref ref6(const std::string& s) { return with_nul(s, ref6_core); }

static Ref refhw_core(const std::string& s) {
    if (s.empty()) return {REJ, 0, "empty"};
    for (unsigned char ch : s) if (!(isxd(ch) || ch == ':')) return {REJ, 0, "alphabet"};
    std::vector<std::string> g = split(s, ':'); size_t nonempty = 0; bool all2 = true;
    for (auto& x : g) { if (x.size() > 2) return {REJ, 0, "long-group"}; if (!x.empty()) ++nonempty; if (x.size() != 2) all2 = false; }
    if (nonempty > 6) return {REJ, 0, "too-many-groups"};
    if (g.size() == 6 && all2) { u128 v = 0; for (auto& x : g) v = (v << 8) | (xv((unsigned char)x[0]) * 16 + xv((unsigned char)x[1])); return {ACC, v, "canonical"}; }
    return {DC, 0, "lenient-shape"};
}
// A string that is invalid only because of what follows the sixth group gets its own discriminator
static Ref refhw(const std::string& s) {
    Ref r = refhw_core(s);
    if (r.c == REJ) {
        int colons = 0; size_t pos = std::string::npos;
        for (size_t i = 0; i < s.size(); ++i) if (s[i] == ':' && ++colons == 6) { pos = i; break; }
        if (pos != std::string::npos && refhw_core(s.substr(0, pos)).c != REJ) r.why = "tail-after-sixth-group";
    }
    return r;
}

// exact-size NUL-terminated heap copy (an over-read of one byte hits ASan's red zone)
struct CStr { char* p; explicit CStr(const std::string& s) : p((char*)malloc(s.size() + 1)) { memcpy(p, s.data(), s.size()); p[s.size()] = 0; } ~CStr() { free(p); } CStr(const CStr&) = delete; };

static std::string hexgroup(unsigned v, Rng& r, unsigned maxw) {
    char b[16]; snprintf(b, sizeof b, "%x", v); std::string s = b;
    if (r.chance(1, 3)) { unsigned w = 1 + r.below(maxw); while (s.size() < w) s = "0" + s; }
    u32 cs = r.below(3); for (char& c : s) if (c >= 'a' && c <= 'f' && (cs == 1 || (cs == 2 && r.chance(1, 2)))) c = (char)(c - 32);
    return s;
}

// ---- per-type adapters ---------------------------------------------------------------------------
struct V4 {
    typedef IPv4Address A; enum { W = 32 }; static const char* nm() { return "ipv4"; }
    static A make(u128 v) { u8 b[4] = {(u8)(v >> 24), (u8)(v >> 16), (u8)(v >> 8), (u8)v}; u32 be; memcpy(&be, b, 4); return A(be); }
    static u128 val(const A& a) { u32 be = (u32)a; u8 b[4]; memcpy(b, &be, 4); return ((u128)b[0] << 24) | ((u128)b[1] << 16) | ((u128)b[2] << 8) | b[3]; }
    static A parse(const std::string& s, int how) { if (how == 0) return A(s); CStr c(s); return A(c.p); }
    static Ref ref(const std::string& s) { return ref4(s); }
    static std::string canon(u128 v) { char b[32]; snprintf(b, sizeof b, "%u.%u.%u.%u", (unsigned)(v >> 24) & 255, (unsigned)(v >> 16) & 255, (unsigned)(v >> 8) & 255, (unsigned)v & 255); return b; }
    static std::string spell(u128 v, Rng&) { return canon(v); }
    static bool has_mask_fn() { return true; }
    static A prefix_mask(unsigned p) { return A::from_prefix_length(p); }
    static const std::vector<std::string>& specials() { static const std::vector<std::string> v = {"0", "00", "01", "001", "000", "0001", "255", "256", "260", "300", "999", "1000", "0255", "0256", "4294967296", "4294967297", "99999999999999999999", "", "0x1", "1e1", "-1", "+1", "1 ", "25", "2555"}; return v; }
    static const char* seps() { return "."; }
};
struct V6 {
    typedef IPv6Address A; enum { W = 128 }; static const char* nm() { return "ipv6"; }
    static A make(u128 v) { u8 b[16]; for (int i = 0; i < 16; ++i) b[i] = (u8)(v >> (8 * (15 - i))); return A(b); }
    static u128 val(const A& a) { u128 v = 0; for (A::const_iterator it = a.begin(); it != a.end(); ++it) v = (v << 8) | *it; return v; }
    static A parse(const std::string& s, int how) { if (how == 0) return A(s); CStr c(s); return A(c.p); }
    static Ref ref(const std::string& s) { return ref6(s); }
    static std::string canon(u128 v) { std::string s; for (int i = 7; i >= 0; --i) { char b[8]; snprintf(b, sizeof b, "%x", (unsigned)(v >> (16 * i)) & 0xffff); s += b; if (i) s += ':'; } return s; }
    // any valid RFC 4291 spelling: case, zero padding, one "::" over any run of zero groups, dotted tail
    static std::string spell(u128 v, Rng& r) {
        unsigned g[8]; for (int i = 0; i < 8; ++i) g[i] = (unsigned)(v >> (16 * (7 - i))) & 0xffff;
        bool v4 = r.chance(1, 4); int ng = v4 ? 6 : 8;
        std::vector<std::string> t; for (int i = 0; i < ng; ++i) t.push_back(hexgroup(g[i], r, 4));
        if (v4) t.push_back(V4::canon(((u128)g[6] << 16) | g[7]));
        std::vector<std::pair<int, int>> runs;
        for (int i = 0; i < ng; ++i) for (int j = i; j < ng && g[j] == 0; ++j) runs.push_back({i, j + 1});
        auto join = [&](int a, int b) { std::string s; for (int i = a; i < b; ++i) { if (i > a) s += ':'; s += t[(size_t)i]; } return s; };
        if (runs.empty() || r.chance(1, 4)) return join(0, (int)t.size());
        std::pair<int, int> c = r.chance(1, 2) ? runs[r.below((u32)runs.size())] : *std::max_element(runs.begin(), runs.end(), [](const std::pair<int, int>& a, const std::pair<int, int>& b) { return a.second - a.first < b.second - b.first; });
        return join(0, c.first) + "::" + join(c.second, (int)t.size());
    }
    static bool has_mask_fn() { return true; }
    static A prefix_mask(unsigned p) { return A::from_prefix_length(p); }
    static const std::vector<std::string>& specials() { static const std::vector<std::string> v = {"0", "0000", "00000", "00001", "10000", "1ffff", "fffff", "ffff", "FFFF", "fFfF", "g", "", "1.2.3.4", "255.255.255.255", "256.1.1.1", "1.2.3", "01.2.3.4", "1.2.3.4.5", "1.2.3.256", "%1", "0x1", "12345", "abcde"}; return v; }
    static const char* seps() { return ":."; }
};
struct HW {
    typedef HWAddress<6> A; enum { W = 48 }; static const char* nm() { return "hw"; }
    static A make(u128 v) { u8 b[6]; for (int i = 0; i < 6; ++i) b[i] = (u8)(v >> (8 * (5 - i))); return A(b); }
    static u128 val(const A& a) { u128 v = 0; for (A::const_iterator it = a.begin(); it != a.end(); ++it) v = (v << 8) | *it; return v; }
    static A parse(const std::string& s, int) { std::string exact(s.begin(), s.end()); return A(exact); }
    static Ref ref(const std::string& s) { return refhw(s); }
    static std::string canon(u128 v) { std::string s; for (int i = 5; i >= 0; --i) { char b[8]; snprintf(b, sizeof b, "%02x", (unsigned)(v >> (8 * i)) & 0xff); s += b; if (i) s += ':'; } return s; }
    static std::string spell(u128 v, Rng& r) { std::string s = canon(v); u32 cs = r.below(3); for (char& c : s) if (c >= 'a' && c <= 'f' && (cs == 1 || (cs == 2 && r.chance(1, 2)))) c = (char)(c - 32); return s; }
    static bool has_mask_fn() { return false; }
    static A prefix_mask(unsigned) { return A(); }
    static const std::vector<std::string>& specials() { static const std::vector<std::string> v = {"0", "00", "000", "0ff", "ff", "FF", "fF", "g0", "0g", "1ff", "100", "", "0x", "-1", " f", "f", "fff", "0000", "G1", "zz"}; return v; }
    static const char* seps() { return ":"; }
};

// ---- value generator: boundary heavy, runs of 00/ff, carries at every byte ------------------------
static u128 gen_val(Rng& r, unsigned W) {
    u128 mx = maxv(W); unsigned nb = W / 8;
    switch (r.below(9)) {
        case 0: { u128 d = r.below(6); return r.chance(1, 2) ? d : mx - d; }
        case 1: case 2: {            // k low bytes all ff (or all 00), +- small delta: a carry/borrow of depth k
            unsigned k = 1 + r.below(nb - 1); if (r.chance(1, 4)) k = nb - 1;
            u128 low = (((u128)1 << (8 * k)) - 1) & mx; u128 v = rnd128(r) & mx;
            if (r.chance(1, 3)) { v &= ~(((u128)0xff) << (8 * k)); if (r.chance(1, 2)) v |= ((u128)0x7f) << (8 * k); }
            v = r.chance(3, 4) ? (v | low) : (v & ~low); int d = (int)r.below(9) - 4;
            return (v + (u128)(long long)d) & mx; }
        case 3: {                     // every byte from a small alphabet
            static const u8 al[] = {0x00, 0xff, 0xfe, 0x01, 0x80, 0x7f};
            u128 v = 0; u8 cur = al[r.below(6)];
            for (unsigned i = 0; i < nb; ++i) { if (r.chance(1, 3)) cur = r.chance(1, 4) ? r.byte() : al[r.below(6)]; v = (v << 8) | cur; } return v; }
        case 4: { unsigned b = r.below(W); u128 v = (u128)1 << b; switch (r.below(3)) { case 0: return v; case 1: return (v - 1) & mx; default: return (mx ^ (v - 1)) & mx; } }
        case 5: if (W == 32) {         // IPv4 class / special-purpose block boundaries and their neighbours
            static const u32 edges[] = {0x0a000000u, 0x0affffffu, 0x7f000000u, 0x7fffffffu, 0x80000000u, 0xac100000u, 0xac1fffffu, 0xbfffffffu, 0xc0000000u, 0xc0a80000u, 0xc0a8ffffu, 0xdfffffffu, 0xe0000000u, 0xefffffffu, 0xf0000000u, 0xa9fe0000u, 0x00ffffffu, 0x01000000u, 0xfffffffeu};
            return (u128)(u32)(edges[r.below(sizeof edges / sizeof edges[0])] + (u32)((int)r.below(3) - 1)); }
            // fallthrough for other widths
        default: return rnd128(r) & mx;
    }
}

// ---- parsing with outcome --------------------------------------------------------------------------
struct Outcome { bool ok; u128 v; std::string exc; };
template <class O> static Outcome try_parse(const std::string& s, int how) {
    Outcome o{false, 0, ""};
    try { typename O::A a = O::parse(s, how); o.ok = true; o.v = O::val(a); }
    catch (const invalid_address&) { o.exc = "invalid_address"; }
    catch (...) { o.exc = current_exception_type(); }
    return o;
}

template <class O> static void check_text(const std::string& s, Rng& rng, bool from_valid_generator, u128 want) {
    const std::string nm = O::nm(); const unsigned W = O::W;
    Ref ref = O::ref(s);
    if (from_valid_generator && (ref.c != ACC || ref.v != want)) { violation("oracle-self-check/" + nm, "reference does not accept its own valid spelling " + vis(s)); return; }
    bool nul = s.find('\0') != std::string::npos;
    int how = (!nul && rng.chance(1, 2)) ? 1 : 0;
    Outcome a = try_parse<O>(s, how), b = try_parse<O>(s, 0);
    if (a.ok != b.ok || (a.ok && a.v != b.v)) violation("text-determinism/" + nm, "two parses of " + vis(s) + " disagree: " + (a.ok ? hx(a.v, W) : a.exc) + " vs " + (b.ok ? hx(b.v, W) : b.exc));
    static const char* cls[] = {"accept", "reject", "dontcare"};
    cnt("text:" + nm + ":" + cls[ref.c] + ":" + ref.why);
    if (ref.c == ACC) {
        if (!a.ok) violation("text-accept/" + nm + "/valid-rejected/" + ref.why, "valid address text " + vis(s) + " rejected with " + a.exc);
        else if (a.v != ref.v) violation("text-accept/" + nm + "/wrong-value/" + ref.why, vis(s) + " parsed as " + hx(a.v, W) + ", denotes " + hx(ref.v, W));
        cnt("chk:text-must-accept");
    } else if (ref.c == REJ) {
        if (a.ok) violation("text-reject/" + nm + "/" + ref.why, "invalid address text " + vis(s) + " accepted as " + hx(a.v, W) + " (reason it is invalid: " + ref.why + ")");
        else cnt("text-exc:" + a.exc);
        cnt("chk:text-must-reject");
    } else { cnt(std::string("text-dontcare:") + nm + (a.ok ? ":accepted" : ":rejected")); }
    sig(fnv(s, W));
}

// ---- near-valid text generator ---------------------------------------------------------------------
template <class O> static std::string near_valid(Rng& r) {
    const unsigned W = O::W; const std::string seps = O::seps();
    static const std::string junk = std::string(" \t\n\r/-+,;%[]gGzZxX.:@_~") + '\x7f' + '\x80' + '\xff' + "0123456789abcdefABCDEF";
    const std::vector<std::string>& sp = O::specials();
    u32 top = r.below(40);
    if (top == 0) return std::string();
    if (top == 1) { std::string s; u32 n = 9 + r.below(r.chance(1, 4) ? 3000 : 40); std::string g = r.chance(1, 2) ? sp[r.below((u32)sp.size())] : "1"; for (u32 i = 0; i < n; ++i) { if (i) s += seps[0]; s += g; } return s; }        // far too many groups
    if (top == 2) { std::string s = O::spell(gen_val(r, W), r); size_t p = s.find_last_of(seps); std::string big(1 + r.below(400), r.chance(1, 2) ? '0' : (char)('1' + r.below(9))); big += (char)('0' + r.below(10)); return s.substr(0, p + 1) + big; }   // enormous last group
    std::string s = O::spell(gen_val(r, W), r);
    if (top == 3) { std::string t = s; t += '\0'; u32 n = r.below(6); for (u32 i = 0; i < n; ++i) t += junk[r.below((u32)junk.size())]; return t; }     // text continues after a NUL
    if (top == 4) { std::string t = s; t += seps[0]; if (r.chance(3, 4)) t += sp[r.below((u32)sp.size())]; if (r.chance(1, 3)) { t += seps[0]; t += sp[r.below((u32)sp.size())]; } return t; }   // something after the last group
    if (top == 5) return s;
    std::vector<std::string> tk;
    for (char c : s) { bool sep = seps.find(c) != std::string::npos; if (sep || tk.empty() || seps.find(tk.back()[0]) != std::string::npos) tk.push_back(std::string(1, c)); else tk.back() += c; }
    auto is_sep = [&](const std::string& t) { return t.size() == 1 && seps.find(t[0]) != std::string::npos; };
    auto rnd_group = [&]() -> int { std::vector<int> ix; for (size_t i = 0; i < tk.size(); ++i) if (!is_sep(tk[i])) ix.push_back((int)i); return ix.empty() ? -1 : ix[r.below((u32)ix.size())]; };
    auto rnd_sep = [&]() -> int { std::vector<int> ix; for (size_t i = 0; i < tk.size(); ++i) if (is_sep(tk[i])) ix.push_back((int)i); return ix.empty() ? -1 : ix[r.below((u32)ix.size())]; };
    u32 nops = 1 + r.below(3); std::vector<u32> charops;
    for (u32 o = 0; o < nops; ++o) {
        u32 op = r.below(12); int gi = rnd_group(), si = rnd_sep();
        switch (op) {
            case 0: case 1: if (gi >= 0) tk[(size_t)gi] = sp[r.below((u32)sp.size())]; break;
            case 2: if (gi >= 0) { size_t g = (size_t)gi; if (g + 1 < tk.size()) tk.erase(tk.begin() + (long)g, tk.begin() + (long)g + 2); else if (g > 0) tk.erase(tk.begin() + (long)g - 1, tk.end()); } break;   // drop a group
            case 3: { std::string g = r.chance(1, 2) ? sp[r.below((u32)sp.size())] : (gi >= 0 ? tk[(size_t)gi] : "1"); std::string sepc(1, seps[0]);
                      if (r.chance(1, 2)) { tk.push_back(sepc); tk.push_back(g); } else { tk.insert(tk.begin(), sepc); tk.insert(tk.begin(), g); } break; }                                                   // extra group
            case 4: if (si >= 0) tk.insert(tk.begin() + si, tk[(size_t)si]); break;             // doubled separator
            case 5: if (si >= 0) tk.erase(tk.begin() + si); break;                                // missing separator
            case 6: { std::string sepc(1, seps[r.below((u32)seps.size())]); if (r.chance(1, 2)) tk.push_back(sepc); else tk.insert(tk.begin(), sepc); break; }
            case 7: if (gi >= 0) { std::string& g = tk[(size_t)gi]; g = std::string(1 + r.below(3), r.chance(3, 4) ? '0' : '1') + g; } break;    // longer group
            case 8: if (gi >= 0) { std::string& g = tk[(size_t)gi]; for (char& c : g) { if (c >= 'a' && c <= 'f') c = (char)(c - 32); else if (c >= 'A' && c <= 'F') c = (char)(c + 32); } } break;
            default: charops.push_back(op); break;
        }
    }
    std::string t; for (auto& x : tk) t += x;
    for (u32 op : charops) {
        char j = junk[r.below((u32)junk.size())]; size_t pos = t.empty() ? 0 : r.below((u32)t.size() + 1);
        if (op == 9) t.insert(t.begin() + (long)pos, j);
        else if (op == 10) { if (!t.empty()) t[pos % t.size()] = j; }
        else { if (r.chance(1, 2)) t = t.substr(0, pos); else t += j; }
    }
    return t;
}

// ---- comparisons / hashing / bit operations ---------------------------------------------------------
template <class A> struct Rec { A a; u8 trailer[16]; };

template <class O> static void check_pair(const typename O::A& a, u128 va, const typename O::A& b, u128 vb) {
    const std::string nm = O::nm(); const unsigned W = O::W;
    auto bad = [&](const char* op, bool got) { violation("order/" + nm + "/" + op, hx(va, W) + " " + op + " " + hx(vb, W) + " evaluates to " + (got ? "true" : "false")); };
    if ((a == b) != (va == vb)) bad("==", a == b);
    if ((a != b) != (va != vb)) bad("!=", a != b);
    if ((a < b) != (va < vb)) bad("<", a < b);
    if ((a <= b) != (va <= vb)) bad("<=", a <= b);
    if ((a > b) != (va > vb)) bad(">", a > b);
    if ((a >= b) != (va >= vb)) bad(">=", a >= b);
    u128 mx = maxv(W);
    if (O::val(a & b) != (va & vb)) violation("bitops/" + nm + "/and", hx(va, W) + " & " + hx(vb, W) + " gives " + hx(O::val(a & b), W));
    if (O::val(a | b) != (va | vb)) violation("bitops/" + nm + "/or", hx(va, W) + " | " + hx(vb, W) + " gives " + hx(O::val(a | b), W));
    if (O::val(~a) != (~va & mx)) violation("bitops/" + nm + "/not", "~" + hx(va, W) + " gives " + hx(O::val(~a), W));
    cnt("chk:order-pairs");
}

template <class O> static void check_hash(u128 v, const std::string& text, Rng& rng) {
    typedef typename O::A A; const std::string nm = O::nm(); const unsigned W = O::W;
    std::hash<A> H; A a = O::make(v); size_t h0 = H(a);
    // the same address at other places in memory: exact-size heap block (red zone right behind it), and
    // inside records whose following bytes differ
    void* raw = malloc(sizeof(A)); A* p = new (raw) A(a); size_t h1 = H(*p); p->~A(); free(raw);
    std::unique_ptr<Rec<A>> r1(new Rec<A>()), r2(new Rec<A>()); r1->a = a; r2->a = a;
    memset(r1->trailer, 0x00, sizeof r1->trailer); for (u8& t : r2->trailer) t = (u8)(rng.byte() | 1);
    size_t h2 = H(r1->a), h3 = H(r2->a);
    A arr[2] = {a, O::make(~v & maxv(W))}; size_t h4 = H(arr[0]);
    size_t h5 = H(O::parse(text, 0));
    if (h0 != h1 || h0 != h2 || h0 != h3 || h0 != h4 || h0 != h5 || h0 != H(a))
        violation("hash/" + nm + "/equal-addresses-hash-differently", "std::hash of equal addresses " + hx(v, W) + " differs between copies (stack, exact heap block, record with zero trailer, record with other trailer, array, parsed from text): " +
                  std::to_string(h0) + " " + std::to_string(h1) + " " + std::to_string(h2) + " " + std::to_string(h3) + " " + std::to_string(h4) + " " + std::to_string(h5));
    cnt("chk:hash");
}

template <class O> static void case_addr(Rng& rng) {
    typedef typename O::A A; const std::string nm = O::nm(); const unsigned W = O::W; u128 mx = maxv(W);
    std::vector<u128> vs; u128 base = gen_val(rng, W);
    for (int d = -2; d <= 3; ++d) vs.push_back((base + (u128)(long long)d) & mx);             // consecutive values across the structure of base
    for (int i = 0; i < 4; ++i) vs.push_back(gen_val(rng, W));
    { unsigned nb = W / 8; unsigned i = rng.below(nb), j = rng.below(nb); u128 bi = (base >> (8 * i)) & 0xff, bj = (base >> (8 * j)) & 0xff;   // two bytes swapped
      u128 sw = base & ~(((u128)0xff << (8 * i)) | ((u128)0xff << (8 * j))); sw |= (bi << (8 * j)) | (bj << (8 * i)); vs.push_back(sw);
      vs.push_back(base ^ ((u128)(1 + rng.below(255)) << (8 * i))); }                           // one byte differs
    describe_case(nm + " addr base=" + hx(base, W));
    std::vector<A> as; u64 sg = W;
    for (u128 v : vs) {
        A a = O::make(v); as.push_back(a); sg = mix(sg, (u64)v ^ (u64)(v >> 64));
        if (O::val(a) != v) { violation("bytes/" + nm, "address built from bytes " + hx(v, W) + " reads back as " + hx(O::val(a), W)); continue; }
        std::string s = a.to_string();
        Ref ref = O::ref(s);
        if (ref.c != ACC) violation("to-string/" + nm + "/not-a-valid-text", "to_string() of " + hx(v, W) + " is " + vis(s) + " which is not a valid address text");
        else if (ref.v != v) violation("to-string/" + nm + "/wrong-text", "to_string() of " + hx(v, W) + " is " + vis(s) + " which denotes " + hx(ref.v, W));
        Outcome o = try_parse<O>(s, (int)rng.below(2));
        if (!o.ok) violation("round-trip/" + nm + "/rejected", "parse(to_string(" + hx(v, W) + ")) = parse(" + vis(s) + ") throws " + o.exc);
        else if (o.v != v) violation("round-trip/" + nm + "/changed", "parse(to_string(" + hx(v, W) + ")) = parse(" + vis(s) + ") = " + hx(o.v, W));
        cnt("chk:round-trip");
        for (int k = 0; k < 2; ++k) check_text<O>(O::spell(v, rng), rng, true, v);           // other valid spellings of the same address
        check_text<O>(O::canon(v), rng, true, v);
        check_hash<O>(v, s, rng);
    }
    for (size_t i = 0; i < as.size(); ++i) for (size_t j = 0; j < as.size(); ++j) check_pair<O>(as[i], vs[i], as[j], vs[j]);
    sig(sg);
}

// ---- ranges ----------------------------------------------------------------------------------------
template <class O> static std::string wrap_disc(u128 first, unsigned W) {
    u128 mx = maxv(W); if (mx - first < 3) return "first=all-ones-minus-" + std::to_string((unsigned)(mx - first)); return "no-wrap";
}

// r is claimed to be [first,last]; hosts = walking it skips both ends
template <class O> static void check_range(const AddressRange<typename O::A>& r, u128 first, u128 last, bool hosts, const std::string& site, Rng& rng, bool walk, const std::string& what) {
    typedef typename O::A A; const std::string nm = O::nm(); const unsigned W = O::W; u128 mx = maxv(W);
    // contains(): both ends, their neighbours, values differing from an end in one byte, extremes, random
    std::vector<u128> xs = {first, last, 0, mx, (first + ((last - first) >> 1)), rnd128(rng) & mx, gen_val(rng, W)};
    if (first > 0) xs.push_back(first - 1); if (first < mx) xs.push_back(first + 1);
    if (last > 0) xs.push_back(last - 1); if (last < mx) xs.push_back(last + 1);
    for (int k = 0; k < 2; ++k) { unsigned i = rng.below(W / 8); xs.push_back(first ^ ((u128)(1 + rng.below(255)) << (8 * i))); xs.push_back(last ^ ((u128)(1 + rng.below(255)) << (8 * i))); }
    for (u128 x : xs) {
        bool want = first <= x && x <= last, got = r.contains(O::make(x));
        if (got != want) { std::string where = x == first ? "first" : x == last ? "last" : x < first ? "below" : x > last ? "above" : "inside";
            violation("contains/" + nm + "/" + site + "/" + where, what + ": range [" + hx(first, W) + "," + hx(last, W) + "] contains(" + hx(x, W) + ") = " + (got ? "true" : "false")); }
    }
    cnt("chk:contains", xs.size());
    // is_iterable(): false exactly when hosts-only and fewer than two hosts
    bool want_it = !hosts || (last - first >= 3), got_it = r.is_iterable();
    cnt(std::string("is_iterable:") + nm + (want_it ? ":true" : ":false"));
    std::string wd = wrap_disc<O>(first, W);
    if (got_it != want_it) {
        if (got_it) violation("is-iterable/" + nm + "/spurious-true/" + wd, what + ": range [" + hx(first, W) + "," + hx(last, W) + "] has " + (last - first >= 1 ? std::to_string((unsigned)(last - first - 1)) : std::string("0")) + " host addresses but is_iterable() is true");
        else violation("is-iterable/" + nm + "/spurious-false", what + ": range [" + hx(first, W) + "," + hx(last, W) + "] (hosts only: " + (hosts ? "yes" : "no") + ") is_iterable() is false");
    }
    if (!got_it) return;
    if (!want_it) {          // the library says it can be walked: then the walk must at least end
        size_t i = 0; for (typename AddressRange<A>::const_iterator it = r.begin(); it != r.end(); ++it) if (++i > STEP_CAP) break;
        if (i > STEP_CAP) violation("iteration/" + nm + "/non-terminating/" + wd, what + ": range [" + hx(first, W) + "," + hx(last, W) + "] claims to be iterable; walking it was stopped after " + std::to_string(STEP_CAP) + " steps");
        cnt("chk:walk-of-spuriously-iterable"); return;
    }
    u128 start = hosts ? first + 1 : first, n = hosts ? last - first - 1 : last - first + 1;   // n == 0 only for the full 2^128 range
    bool full = !hosts && first == 0 && last == mx;
    {   // first step of the walk, whatever the size
        typename AddressRange<A>::const_iterator b = r.begin(), e = r.end();
        if (!(b != e) || b == e) violation(std::string("iteration/") + nm + "/" + (hosts ? "hosts" : "all") + "/empty-walk" + (full ? "/whole-address-space" : ""), what + ": begin() == end() for range [" + hx(first, W) + "," + hx(last, W) + "]");
        else if (O::val(*b) != start) violation(std::string("iteration/") + nm + "/" + (hosts ? "hosts" : "all") + "/first-value", what + ": *begin() = " + hx(O::val(*b), W) + ", expected " + hx(start, W));
        if (O::val(*b) != O::val(*b.operator->())) violation("iteration/" + nm + "/arrow", "operator-> and operator* disagree");
        cnt("chk:begin");
    }
    if (!walk || full || n > 65536) return;
    const std::string tag = std::string("iteration/") + nm + "/" + (hosts ? "hosts" : "all");
    size_t i = 0; bool bad = false; bool call_end_each_time = rng.chance(1, 2);
    typename AddressRange<A>::const_iterator e = r.end();
    const bool post = rng.chance(1, 3); if (post) cnt("walks:with-post-increment");      // it++ and ++it must walk alike
    for (typename AddressRange<A>::const_iterator it = r.begin(); call_end_each_time ? it != r.end() : it != e; post ? (void)it++ : (void)++it) {
        if (i >= STEP_CAP) { violation(tag + "/non-terminating/" + (last == mx ? "ends-at-all-ones" : "inner"), what + ": walk of [" + hx(first, W) + "," + hx(last, W) + "] (" + std::to_string((unsigned long)n) + " addresses expected) stopped after " + std::to_string(STEP_CAP) + " steps" + (post ? " (walking with it++)" : "")); bad = true; break; }
        u128 got = O::val(*it);
        if (!bad && i >= (size_t)n) { violation(tag + "/overrun", what + ": walk of [" + hx(first, W) + "," + hx(last, W) + "] goes on after its " + std::to_string((unsigned long)n) + " addresses, yielding " + hx(got, W)); bad = true; }
        if (!bad && got != start + i) { violation(tag + "/wrong-value", what + ": walk of [" + hx(first, W) + "," + hx(last, W) + "] step " + std::to_string(i) + " yields " + hx(got, W) + ", expected " + hx(start + i, W)); bad = true; }
        ++i;
    }
    if (!bad && i < (size_t)n) violation(tag + "/short", what + ": walk of [" + hx(first, W) + "," + hx(last, W) + "] ended after " + std::to_string(i) + " of " + std::to_string((unsigned long)n) + " addresses");
    cnt("chk:walk-steps", i); cnt(std::string("walks:") + nm + ":" + site);
    if (last == mx) cnt(std::string("br:walk-ends-at-all-ones:") + nm);
    if (hosts && (last & 0xff) == 0) cnt("br:end-borrows");
    if (n >= 2) { u128 lo = start, hi = start + n - 1, x = lo ^ hi; unsigned depth = 0; while (depth < W / 8 && (x >> (8 * depth)) > 0xff) ++depth;   // bytes that roll over from ff to 00 inside the walk
        cnt("br:carry:" + nm + ":" + std::to_string(depth)); }
    sig(mix(mix((u64)first, (u64)(first >> 64)), mix((u64)last ^ (u64)(last >> 64), hosts)));
}

// building a range from valid arguments must not fail
template <class O, class F> static bool guarded(const std::string& site, const std::string& what, F body) {
    try { body(); return true; }
    catch (...) { violation(std::string("range-ctor/") + O::nm() + "/" + site + "/valid-rejected", what + " throws " + current_exception_type()); return false; }
}

static u128 top_table(Rng& r, unsigned W) { u128 mx = maxv(W); u32 k = r.below(12); return k < 6 ? mx - k : (u128)(k - 6); }

template <class O> static void case_prefix(Rng& rng) {
    typedef typename O::A A; const std::string nm = O::nm(); const unsigned W = O::W; u128 mx = maxv(W);
    u128 a = rng.chance(1, 5) ? top_table(rng, W) : gen_val(rng, W); A addr = O::make(a);
    describe_case(nm + " prefix-sweep base=" + hx(a, W));
    for (unsigned p = 0; p <= W; ++p) {
        u128 m = p == 0 ? 0 : ((mx << (W - p)) & mx);
        if (O::has_mask_fn()) { u128 got = O::val(O::prefix_mask(p)); if (got != m) violation("prefix-mask/" + nm, "from_prefix_length(" + std::to_string(p) + ") = " + hx(got, W) + ", expected " + hx(m, W)); cnt("chk:prefix-mask"); }
        u128 first = a & m, last = a | (~m & mx);
        bool walk = (W - p) <= 16 && ((W - p) <= 11 || rng.chance(1, 5));
        const std::string what = O::canon(a) + "/" + std::to_string(p);
        guarded<O>("prefix", what, [&]() { AddressRange<A> r = addr / (int)p; check_range<O>(r, first, last, true, "prefix", rng, walk, what); });
        cnt("ranges:prefix");
    }
    cnt(std::string("prefix-sweeps:") + nm);
}

template <class O> static void case_mask(Rng& rng) {
    typedef typename O::A A; const std::string nm = O::nm(); const unsigned W = O::W; u128 mx = maxv(W);
    describe_case(nm + " from_mask");
    for (int k = 0; k < 8; ++k) {
        u128 a = rng.chance(1, 6) ? top_table(rng, W) : gen_val(rng, W), m; const char* style;
        switch (rng.below(6)) {
            case 0: { unsigned p = rng.below(W + 1); m = p == 0 ? 0 : ((mx << (W - p)) & mx); style = "contiguous"; break; }
            case 1: { m = mx & ~(u128)(rng.next() & rng.next() & 0xffff); style = "holes-in-low-16"; break; }
            case 2: { m = (mx & ~(u128)(rng.next() & 0xff00)) | 0xff; if (rng.chance(1, 2)) a &= ~(u128)0xff; style = "low-byte-fixed"; break; }
            case 3: { m = gen_val(rng, W); style = "structured"; break; }
            case 4: { static const unsigned sub[] = {0, 1, 2, 3, 4, 5, 6, 7, 8, 0xff, 0x100, 0xffff}; m = mx - sub[rng.below(12)]; style = "near-all-ones"; break; }
            default: { m = rnd128(rng) & mx; style = "random"; }
        }
        u128 first = a & m, last = a | (~m & mx);
        describe_case(nm + " from_mask a=" + hx(a, W) + " m=" + hx(m, W));
        bool contiguous = ((~m & mx) & ((~m & mx) + 1)) == 0;
        const std::string what = "from_mask(" + O::canon(a) + ", " + O::canon(m) + ")", site = contiguous ? "mask" : "mask-noncontiguous";
        guarded<O>(site, what, [&]() { AddressRange<A> r = AddressRange<A>::from_mask(O::make(a), O::make(m)); check_range<O>(r, first, last, true, site, rng, true, what); });
        cnt(std::string("ranges:mask:") + style); if (!contiguous) cnt("ranges:mask-noncontiguous");
    }
}

template <class O> static void case_explicit(Rng& rng) {
    typedef typename O::A A; const std::string nm = O::nm(); const unsigned W = O::W; u128 mx = maxv(W);
    describe_case(nm + " explicit ranges");
    for (int k = 0; k < 5; ++k) {
        static const u32 sizes[] = {1, 2, 3, 4, 5, 255, 256, 257, 1000, 4096, 65535, 65536};
        u128 n = rng.chance(1, 3) ? (u128)(1 + rng.below(rng.chance(1, 4) ? 65536 : 600)) : (u128)sizes[rng.below(12)];
        u128 first;
        switch (rng.below(4)) {
            case 0: first = mx - (n - 1); break;                                   // ends at the all-ones address
            case 1: { unsigned nb = W / 8, d = 1 + rng.below(nb - 1); if (rng.chance(1, 3)) d = nb - 1;     // crosses a carry of depth d
                      u128 low = ((u128)1 << (8 * d)) - 1; u128 v = rnd128(rng) & mx; if (rng.chance(1, 2)) v &= ~((u128)0xff << (8 * d)); v |= low;
                      u128 back = rng.below64((u64)n); first = v - back; if (first > v) first = 0; break; }
            case 2: first = rng.chance(1, 2) ? 0 : (u128)rng.below(4); break;
            default: first = gen_val(rng, W);
        }
        if (first > mx - (n - 1)) first = mx - (n - 1);
        u128 last = first + (n - 1); bool hosts = rng.chance(1, 3);
        describe_case(nm + " explicit [" + hx(first, W) + "," + hx(last, W) + "] hosts=" + (hosts ? "1" : "0"));
        const std::string what = std::string("AddressRange(") + O::canon(first) + ", " + O::canon(last) + (hosts ? ", true)" : ")"), site = hosts ? "explicit-hosts" : "explicit";
        guarded<O>(site, what, [&]() { AddressRange<A> r(O::make(first), O::make(last), hosts); check_range<O>(r, first, last, hosts, site, rng, true, what); });
        cnt("ranges:explicit");
    }
    {   // arbitrary (mostly huge) range: membership, is_iterable, first step
        u128 x = gen_val(rng, W), y = gen_val(rng, W); if (rng.chance(1, 8)) { x = 0; y = mx; } if (x > y) std::swap(x, y);
        bool hosts = rng.chance(1, 3);
        describe_case(nm + " explicit-big [" + hx(x, W) + "," + hx(y, W) + "] hosts=" + (hosts ? "1" : "0"));
        const std::string what = std::string("AddressRange(") + O::canon(x) + ", " + O::canon(y) + (hosts ? ", true)" : ")"), site = hosts ? "explicit-hosts" : "explicit";
        guarded<O>(site, what, [&]() { AddressRange<A> r(O::make(x), O::make(y), hosts); check_range<O>(r, x, y, hosts, site, rng, y - x < 65536, what); });
        cnt("ranges:explicit-big");
        if (x != y) {   // documented: last < first is an error
            bool thrown = false; try { AddressRange<A> inv(O::make(y), O::make(x)); (void)inv; } catch (const std::exception&) { thrown = true; }
            if (!thrown) violation("range-ctor/" + nm + "/inverted-accepted", "AddressRange(" + hx(y, W) + ", " + hx(x, W) + ") with last < first did not throw");
            cnt("chk:inverted-range");
        }
    }
}

template <class O> static void case_text(Rng& rng) {
    const std::string nm = O::nm();
    describe_case(nm + " near-valid text");
    for (int k = 0; k < 40; ++k) {
        std::string s = near_valid<O>(rng);
        describe_case(nm + " text " + vis(s) + (s.find('\0') != std::string::npos ? " kf=text-after-nul" : ""));
        check_text<O>(s, rng, false, 0);
        if (want_sample() && k < 2) sample(nm + " text " + vis(s));
    }
}

// The post-increment operator of the range iterator: walk a 5-address range with it++.
template <class O> static void case_postfix() {
    typedef typename O::A A; const std::string nm = O::nm(); const unsigned W = O::W;
    describe_case(nm + " walk with it++ (post-increment) kf=postfix-increment");
    u128 first = 0x0102030405060708ULL & maxv(W); AddressRange<A> r(O::make(first), O::make(first + 4));
    size_t i = 0; cnt("chk:post-increment-walks-started");
    for (typename AddressRange<A>::const_iterator it = r.begin(); it != r.end(); it++) {
        if (O::val(*it) != first + i) { violation("iteration/" + nm + "/post-increment/wrong-value", "step " + std::to_string(i) + " yields " + hx(O::val(*it), W)); break; }
        if (++i > 16) { violation("iteration/" + nm + "/post-increment/non-terminating", "walk of 5 addresses with it++ did not end"); break; }
    }
    if (i != 5) violation("iteration/" + nm + "/post-increment/count", "walk of 5 addresses with it++ visited " + std::to_string(i));
    cnt("chk:post-increment-walks-finished");
}

template <class O> static void dispatch(u32 kind, Rng& rng) {
    switch (kind) {
        case 0: case_addr<O>(rng); cnt(std::string("kind:addr:") + O::nm()); break;
        case 1: case_prefix<O>(rng); cnt(std::string("kind:prefix:") + O::nm()); break;
        case 2: case_mask<O>(rng); cnt(std::string("kind:mask:") + O::nm()); break;
        case 3: case_explicit<O>(rng); cnt(std::string("kind:explicit:") + O::nm()); break;
        default: case_text<O>(rng); cnt(std::string("kind:text:") + O::nm()); break;
    }
}

// ---- stream form and the built-in classification ranges ------------------------------------------------------------
// operator<< must print the textual form (to_string); the classification predicates are 'contains' on constant ranges and must
// agree with plain arithmetic on the address value (RFC 1918 / 127/8 / 224/4 / 255.255.255.255; ::1, ff00::/8, fe80::/10 as documented).
static u128 edgy_v4(Rng& r) { static const u32 E[] = {0x0a000000, 0x0affffff, 0x09ffffff, 0x0b000000, 0xac100000, 0xac1fffff, 0xac0fffff, 0xac200000, 0xc0a80000, 0xc0a8ffff, 0xc0a7ffff, 0xc0a90000, 0x7f000000, 0x7fffffff, 0x7effffff, 0x80000000, 0xe0000000, 0xefffffff, 0xdfffffff, 0xf0000000, 0xffffffff, 0};
    u32 v = r.chance(1, 2) ? E[r.below(sizeof E / sizeof E[0])] : (u32)r.next(); if (r.chance(1, 4)) v += (u32)r.below(3) - 1; return v; }
static void case_classes(Rng& r) {
    for (int k = 0; k < 16; ++k) {
        u32 v = (u32)edgy_v4(r); IPv4Address a = V4::make(v); std::ostringstream os; os << a;
        if (os.str() != a.to_string()) { violation("stream-form/ipv4", "operator<< prints '" + os.str() + "' but to_string() is '" + a.to_string() + "'"); return; }
        bool priv = (v >> 24) == 10 || (v >> 20) == 0xac1 || (v >> 16) == 0xc0a8, loop = (v >> 24) == 127, mc = (v >> 28) == 0xe, bc = v == 0xffffffff;
        if (a.is_private() != priv) { violation("classification/ipv4/is_private", a.to_string() + ": is_private()=" + (a.is_private() ? "true" : "false")); return; }
        if (a.is_loopback() != loop) { violation("classification/ipv4/is_loopback", a.to_string() + ": is_loopback()=" + (a.is_loopback() ? "true" : "false")); return; }
        if (a.is_multicast() != mc) { violation("classification/ipv4/is_multicast", a.to_string() + ": is_multicast()=" + (a.is_multicast() ? "true" : "false")); return; }
        if (a.is_broadcast() != bc) { violation("classification/ipv4/is_broadcast", a.to_string() + ": is_broadcast()=" + (a.is_broadcast() ? "true" : "false")); return; }
        if (a.is_unicast() != (!mc && !bc)) { violation("classification/ipv4/is_unicast", a.to_string() + ": is_unicast()=" + (a.is_unicast() ? "true" : "false")); return; }
        cnt("classification:ipv4"); if (priv) cnt("classification:ipv4:private"); if (mc) cnt("classification:ipv4:multicast"); if (loop) cnt("classification:ipv4:loopback");
    }
    for (int k = 0; k < 16; ++k) {
        u128 v; switch (r.below(6)) { case 0: v = 1; break; case 1: v = ((u128)0xff << 120) | (rnd128(r) >> 8); break; case 2: v = ((u128)0xfe80 << 112) | (rnd128(r) >> 10); break; case 3: v = ((u128)(r.chance(1, 2) ? 0xfe7f : 0xfec0) << 112) | (rnd128(r) >> 16); break; case 4: v = r.below(3); break; default: v = rnd128(r); }
        IPv6Address a = V6::make(v); std::ostringstream os; os << a;
        if (os.str() != a.to_string()) { violation("stream-form/ipv6", "operator<< prints '" + os.str() + "' but to_string() is '" + a.to_string() + "'"); return; }
        bool loop = v == 1, mc = (v >> 120) == 0xff, lu = (v >> 118) == 0x3fa;      // documented as fe80::/10
        if (a.is_loopback() != loop) { violation("classification/ipv6/is_loopback", a.to_string() + ": is_loopback()=" + (a.is_loopback() ? "true" : "false")); return; }
        if (a.is_multicast() != mc) { violation("classification/ipv6/is_multicast", a.to_string() + ": is_multicast()=" + (a.is_multicast() ? "true" : "false")); return; }
        if (a.is_local_unicast() != lu) { violation("classification/ipv6/is_local_unicast", a.to_string() + ": is_local_unicast()=" + (a.is_local_unicast() ? "true" : "false")); return; }
        cnt("classification:ipv6"); if (mc) cnt("classification:ipv6:multicast"); if (lu) cnt("classification:ipv6:local-unicast"); if (loop) cnt("classification:ipv6:loopback");
    }
    { u128 v = rnd128(r) & maxv(48); HWAddress<6> a = HW::make(v); std::ostringstream os; os << a; if (os.str() != a.to_string()) { violation("stream-form/hw", "operator<< prints '" + os.str() + "' but to_string() is '" + a.to_string() + "'"); return; }
      bool bc = v == maxv(48), mc = ((v >> 40) & 1) != 0;
      if (a.is_broadcast() != bc) { violation("classification/hw/is_broadcast", a.to_string()); return; }
      if (a.is_multicast() != mc) { violation("classification/hw/is_multicast", a.to_string()); return; }
      if (a.is_unicast() != (!bc && !mc)) { violation("classification/hw/is_unicast", a.to_string()); return; }
      cnt("classification:hw");
      // the same text handed over in character arrays of different sizes (the array-reference constructor): a C string ends at its NUL wherever the array ends
      std::string t = a.to_string();
      try { char exact[18]; memcpy(exact, t.c_str(), 18); char big[64]; memset(big, 0, sizeof big); memcpy(big, t.c_str(), t.size()); char noisy[40]; memset(noisy, 'x', sizeof noisy); memcpy(noisy, t.c_str(), t.size() + 1);
            HWAddress<6> b1(exact), b2(big), b3(noisy); const char* pc = big; HWAddress<6> b4(pc);
            if (!(b1 == a) || !(b2 == a) || !(b3 == a) || !(b4 == a)) { violation("text-roundtrip/hw/char-array", "HWAddress built from a character array holding '" + t + "' differs from the address (array sizes 18 / 64 zero-filled / 40 with bytes behind the NUL / pointer)"); return; }
            cnt("text-roundtrip:hw:char-arrays"); }
      catch (const exception_base& e) { violation("text-reject/hw/char-array", "HWAddress rejected its own textual form '" + t + "' when it was handed over in a character array larger than the text"); return; } }
}

int main(int argc, char** argv) {
    return vf::run(argc, argv, "C16", [&](long idx, Rng& rng) {
        if (st().a.mode == "postfix") {
            if (idx == 0) case_postfix<V4>(); else if (idx == 1) case_postfix<V6>(); else if (idx == 2) case_postfix<HW>();
            return;
        }
        if (idx % 8 == 7) { case_classes(rng); return; }
        u32 type = rng.below(3);
        static const u32 kinds[] = {0, 0, 0, 1, 1, 1, 2, 2, 3, 3, 4, 4, 4};
        u32 kind = kinds[rng.below(sizeof kinds / sizeof kinds[0])];
        if (type == 0) dispatch<V4>(kind, rng); else if (type == 1) dispatch<V6>(kind, rng); else dispatch<HW>(kind, rng);
    });
}
