// C17 — capture files round-trip and the capture loop survives any frame.
//
// One case = one capture file of one link type. The file is produced either by the real
// PacketWriter (and then decoded by the monitor's own pcap decoder and compared record by
// record with what was asked for) or by the monitor's own pcap encoder from arbitrary
// frames. It is then read back through the real FileSniffer with a random program of
// drivers (next_packet, sniff_loop with every callback signature / max_packets / stop by
// returning false / callbacks that throw, range-for, hand-driven iterators, raw extraction,
// filters set at construction or in the middle of the file). After EVERY delivered packet
// the monitor checks, by frame index, that nothing expected was skipped, nothing unexpected
// was delivered, and that timestamp / structure / bytes are those of that frame.
//   parses(f)  = the top-level parser of the link type called directly on an exact-size copy
//   filter(f)  = libpcap called directly (pcap_open_dead + pcap_compile + pcap_offline_filter)
#include "verif.h"
#include <tins/tins.h>
#include <tins/loopback.h>
#include <tins/ppi.h>
#include <tins/sll.h>
#include <tins/offline_packet_filter.h>
#include <pcap.h>
#include <memory>
#include <new>
#include <chrono>
#include <algorithm>
#include <climits>
#include <sys/time.h>
using namespace Tins;
using namespace vf;

// ---- link types ---------------------------------------------------------------------------------
enum { L_EN10MB, L_DOT11, L_RADIO, L_NULL, L_SLL, L_RAW, L_PPI, NLT };
struct LinkT { const char* name; int dlt; u32 file_lt; };      // file_lt: LINKTYPE_ value stored in a capture file
static const LinkT LTS[NLT] = {
    {"EN10MB", DLT_EN10MB, 1}, {"IEEE802_11", DLT_IEEE802_11, 105}, {"IEEE802_11_RADIO", DLT_IEEE802_11_RADIO, 127},
    {"NULL", DLT_NULL, 0}, {"LINUX_SLL", DLT_LINUX_SLL, 113}, {"RAW", DLT_RAW, 101}, {"PPI", DLT_PPI, 192}};

// libtins has no DataLinkType<> that maps to DLT_NULL (DataLinkType<Loopback> is DLT_LOOP): a user-side tag.
struct NullLinkTag {};
namespace Tins { template <> struct DataLinkType<NullLinkTag> { static const int type = DLT_NULL; int get_type() const { return type; } }; }

static const char* MACS[] = {"00:01:02:03:04:05", "02:aa:bb:cc:dd:ee", "ff:ff:ff:ff:ff:ff", "01:00:5e:00:00:fb", "00:0a:0b:0c:0d:0e"};
static const char* IP4S[] = {"10.0.0.1", "10.0.0.2", "192.168.1.77", "172.16.5.4", "224.0.0.251"};
static const char* IP6S[] = {"2001:db8::1", "2001:db8::2", "fe80::1", "ff02::fb"};
static const u16 PORTS[] = {80, 443, 53, 8080, 12345, 1};
template <class T, size_t N> static const T& pk(Rng& r, const T (&a)[N]) { return a[r.below((u32)N)]; }

// ---- packet generator (API-built, well-formed) ------------------------------------------------------
static PDU* tail_of(PDU* p) { while (p->inner_pdu()) p = p->inner_pdu(); return p; }
static PDU* join(PDU* a, PDU* b) { if (!a) return b; if (b) tail_of(a)->inner_pdu(b); return a; }

static PDU* gen_l4(Rng& r, bool v6) {
    u32 pl_len = r.chance(1, 6) ? 0 : (r.chance(1, 10) ? r.below(1200) : r.below(48));
    Bytes pl = r.bytes(pl_len);
    PDU* p = nullptr;
    switch (r.below(4)) {
        case 0: { TCP* t = new TCP(pk(r, PORTS), pk(r, PORTS)); t->seq((u32)r.next()); t->ack_seq((u32)r.next()); t->flags((u16)r.below(64)); t->window((u16)r.next()); p = t; break; }
        case 1: p = new UDP(pk(r, PORTS), pk(r, PORTS)); break;
        case 2: if (v6) { ICMPv6* i = new ICMPv6(ICMPv6::ECHO_REQUEST); i->identifier((u16)r.next()); i->sequence((u16)r.next()); p = i; }
                else { ICMP* i = new ICMP(ICMP::ECHO_REQUEST); i->id((u16)r.next()); i->sequence((u16)r.next()); p = i; }
                break;
        default: { TCP* t = new TCP(pk(r, PORTS), (u16)(1024 + r.below(60000))); t->flags(TCP::SYN); t->seq((u32)r.next()); p = t; pl.clear(); }
    }
    if (!pl.empty()) p->inner_pdu(new RawPDU(pl.data(), (u32)pl.size()));
    return p;
}
static PDU* gen_ip(Rng& r) {
    if (r.chance(1, 3)) { IPv6* i = new IPv6(IPv6Address(pk(r, IP6S)), IPv6Address(pk(r, IP6S))); i->hop_limit((u8)(1 + r.below(255))); return join(i, gen_l4(r, true)); }
    IP* i = new IP(IPv4Address(pk(r, IP4S)), IPv4Address(pk(r, IP4S))); i->ttl((u8)(1 + r.below(255))); i->id((u16)r.next()); i->tos((u8)r.below(256));
    return join(i, gen_l4(r, false));
}
static PDU* gen_l3(Rng& r) {      // IP / IPv6 / ARP
    if (r.chance(1, 6)) { ARP* a = new ARP(IPv4Address(pk(r, IP4S)), IPv4Address(pk(r, IP4S)), HWAddress<6>(pk(r, MACS)), HWAddress<6>(pk(r, MACS))); a->opcode(r.chance(1, 2) ? ARP::REQUEST : ARP::REPLY); return a; }
    return gen_ip(r);
}
static PDU* gen_dot11(Rng& r) {
    HWAddress<6> a(pk(r, MACS)), b(pk(r, MACS)), c(pk(r, MACS));
    switch (r.below(8)) {
        case 0: { Dot11Data* d = new Dot11Data(a, b); d->addr3(c); if (r.chance(1, 2)) d->from_ds(1); else d->to_ds(1); return join(join(d, new SNAP()), gen_l3(r)); }
        case 1: { Dot11QoSData* d = new Dot11QoSData(a, b); d->addr3(c); d->qos_control((u16)r.below(8)); return join(join(d, new SNAP()), gen_l3(r)); }
        case 2: { Dot11Beacon* d = new Dot11Beacon(a, b); d->addr3(b); d->ssid(std::string("net") + std::to_string(r.below(100))); d->ds_parameter_set((u8)(1 + r.below(13))); d->interval((u16)r.below(1000)); return d; }
        case 3: { Dot11ProbeRequest* d = new Dot11ProbeRequest(a, b); d->ssid("x"); return d; }
        case 4: return new Dot11Ack(a);
        case 5: return new Dot11RTS(a, b);
        case 6: { Dot11Deauthentication* d = new Dot11Deauthentication(a, b); d->reason_code((u16)r.below(40)); return d; }
        default: { Dot11Data* d = new Dot11Data(a, b); d->addr3(c); Bytes pl = r.bytes(1 + r.below(40)); d->inner_pdu(new RawPDU(pl.data(), (u32)pl.size())); return d; }
    }
}
static PDU* gen_top(int lt, Rng& r);
static Bytes gen_ppi_bytes(Rng& r, int forced_dlt = -1);

// a well-formed packet whose serialization is a frame of link type lt (PPI: a RawPDU holding a PPI frame)
static PDU* gen_top(int lt, Rng& r) {
    switch (lt) {
        case L_EN10MB: {
            if (r.chance(1, 7)) { Dot3* d = new Dot3(HWAddress<6>(pk(r, MACS)), HWAddress<6>(pk(r, MACS))); Bytes pl = r.bytes(1 + r.below(60)); return join(join(d, new LLC((u8)(r.below(64) * 2), (u8)(r.below(64) * 2))), new RawPDU(pl.data(), (u32)pl.size())); }
            EthernetII* e = new EthernetII(HWAddress<6>(pk(r, MACS)), HWAddress<6>(pk(r, MACS)));
            if (r.chance(1, 5)) return join(join(e, new Dot1Q((u16)r.below(4096))), gen_l3(r));
            return join(e, gen_l3(r));
        }
        case L_DOT11: return gen_dot11(r);
        case L_RADIO: return join(new RadioTap(), gen_dot11(r));
        case L_NULL: return join(new Loopback(), gen_ip(r));
        case L_SLL: { SLL* s = new SLL(); s->packet_type((u16)r.below(5)); s->lladdr_type(1); s->lladdr_len(6); SLL::address_type ad; for (auto& x : ad) x = r.byte(); ad[6] = ad[7] = 0; s->address(ad); return join(s, gen_l3(r)); }
        case L_RAW: return gen_ip(r);
        default: { Bytes b = gen_ppi_bytes(r); return new RawPDU(b.data(), (u32)b.size()); }
    }
}
static void le16(Bytes& b, u32 v) { b.push_back((u8)v); b.push_back((u8)(v >> 8)); }
static void le32(Bytes& b, u32 v) { for (int i = 0; i < 4; ++i) b.push_back((u8)(v >> (8 * i))); }
// own PPI encoder: version, flags, length(LE), dlt(LE), optional fields, encapsulated frame
static Bytes gen_ppi_bytes(Rng& r, int forced_dlt) {
    static const int inner[] = {L_EN10MB, L_DOT11, L_RADIO, L_NULL, L_SLL};
    int il = inner[r.below(5)];
    Bytes opts;
    if (r.chance(1, 3)) {            // 802.11-common field (type 2, 20 bytes); flags bit 0 = FCS at end
        le16(opts, 2); le16(opts, 20); for (int i = 0; i < 8; ++i) opts.push_back(r.byte());
        le16(opts, (il == L_DOT11 && r.chance(1, 2)) ? 1 : 0); for (int i = 0; i < 10; ++i) opts.push_back(r.byte());
    } else if (r.chance(1, 6)) { le16(opts, 0x7777); u32 n = r.below(12); le16(opts, n); for (u32 i = 0; i < n; ++i) opts.push_back(r.byte()); }
    bool fcs = opts.size() >= 13 && (opts[12] & 1);
    std::unique_ptr<PDU> in(gen_top(il, r));
    Bytes body = in->serialize();
    if (fcs) for (int i = 0; i < 4; ++i) body.push_back(r.byte());
    Bytes b; b.push_back(0); b.push_back((u8)(r.chance(1, 8) ? r.byte() : 0)); le16(b, (u32)(8 + opts.size()));
    le32(b, forced_dlt >= 0 ? (u32)forced_dlt : (u32)LTS[il].dlt);
    b.insert(b.end(), opts.begin(), opts.end()); b.insert(b.end(), body.begin(), body.end());
    return b;
}

// ---- the direct ("parses(f)") oracle --------------------------------------------------------------
static PDU* parse_top(int lt, const u8* p, u32 n) {      // may throw; nullptr = no parser applies
    switch (lt) {
        case L_EN10MB: if (n >= 13 && p[12] < 8) return new Dot3(p, n); return new EthernetII(p, n);
        case L_DOT11: return Dot11::from_bytes(p, n);
        case L_RADIO: return new RadioTap(p, n);
        case L_NULL: return new Loopback(p, n);
        case L_SLL: return new SLL(p, n);
        case L_RAW: if (n == 0) return nullptr; if ((p[0] >> 4) == 4) return new IP(p, n); if ((p[0] >> 4) == 6) return new IPv6(p, n); return nullptr;
        default: return new PPI(p, n);
    }
}
static std::string pdu_desc(const PDU* p) {
    std::string s; u32 total = p->size(); int depth = 0;
    for (const PDU* q = p; q; q = q->inner_pdu(), ++depth) {
        if (depth > 64) { s += ".."; continue; }
        s += std::to_string((int)q->pdu_type()) + ":" + std::to_string(q->header_size()) + "+" + std::to_string(q->trailer_size());
        if (q->pdu_type() == PDU::RAW) { const RawPDU* rp = static_cast<const RawPDU*>(q); char b[24]; snprintf(b, sizeof b, "#%llx", (unsigned long long)fnv(rp->payload().data(), rp->payload().size())); s += b; }
        s += ' ';
    }
    return s + "d" + std::to_string(depth) + "=" + std::to_string(total);
}

enum { F_VALID, F_MUTATED, F_RANDOM, F_ZERO, F_BIG, F_SHORT, F_SPECIAL, F_WRITER };
static const char* FCLS[] = {"valid", "mutated", "random", "zero-length", "65535", "short", "special", "writer"};
struct Frame {
    Bytes data; u32 wire_len = 0; u32 sec = 0, usec = 0; int cls = F_VALID; bool clean = false;
    // analysis
    bool parsed_ok = false, rt_exact = false; std::string exc, desc;
    void analyze(int lt) {
        ExactBuf eb(data);
        try {
            std::unique_ptr<PDU> p(parse_top(lt, eb.data(), (u32)data.size()));
            if (p) {
                parsed_ok = true; desc = pdu_desc(p.get());
                if (clean) { try { rt_exact = (p->serialize() == data); } catch (...) { rt_exact = false; } }
            } else exc = "no-parser";
        } catch (malformed_packet&) { exc = "malformed_packet"; }
        catch (...) { exc = current_exception_type(); }
    }
};

// ---- own pcap encoder / decoder ---------------------------------------------------------------------
static Bytes pcap_header(u32 linktype, u32 snaplen) { Bytes b; le32(b, 0xa1b2c3d4u); le16(b, 2); le16(b, 4); le32(b, 0); le32(b, 0); le32(b, snaplen); le32(b, linktype); return b; }
static void pcap_record(Bytes& b, const Frame& f) { le32(b, f.sec); le32(b, f.usec); le32(b, (u32)f.data.size()); le32(b, f.wire_len); b.insert(b.end(), f.data.begin(), f.data.end()); }
static bool write_all(const std::string& path, const Bytes& b) { FILE* f = fopen(path.c_str(), "wb"); if (!f) return false; bool ok = b.empty() || fwrite(b.data(), 1, b.size(), f) == b.size(); return fclose(f) == 0 && ok; }
static bool read_all(const std::string& path, Bytes& b) { FILE* f = fopen(path.c_str(), "rb"); if (!f) return false; b.clear(); u8 buf[65536]; size_t n; while ((n = fread(buf, 1, sizeof buf, f)) > 0) b.insert(b.end(), buf, buf + n); fclose(f); return true; }
static u32 rd32(const Bytes& b, size_t o) { return (u32)b[o] | (u32)b[o + 1] << 8 | (u32)b[o + 2] << 16 | (u32)b[o + 3] << 24; }

// ---- libpcap called directly: the filter oracle ---------------------------------------------------------
struct Bpf {
    // ok: libpcap compiles the expression without optimization; ok1: also with the optimizer (which additionally
    // refuses expressions that can never match: "expression rejects all packets")
    bool ok = false, ok1 = false; bpf_program p0, p1; std::string expr, err;
    // savefile non-empty: compile against libpcap's own handle on that capture file (what a file reader gets),
    // otherwise against pcap_open_dead(dlt, snaplen)
    Bpf(int dlt, u32 snaplen, const std::string& e, const std::string& savefile = "") : expr(e) {
        memset(&p0, 0, sizeof p0); memset(&p1, 0, sizeof p1);
        char eb[PCAP_ERRBUF_SIZE]; eb[0] = 0;
        pcap_t* d = savefile.empty() ? pcap_open_dead(dlt, (int)snaplen) : pcap_open_offline(savefile.c_str(), eb);
        if (!d) { err = eb; return; }
        if (pcap_compile(d, &p0, e.c_str(), 0, PCAP_NETMASK_UNKNOWN) == 0) {
            ok = true;
            if (pcap_compile(d, &p1, e.c_str(), 1, PCAP_NETMASK_UNKNOWN) == 0) ok1 = true; else err = pcap_geterr(d);
        } else err = pcap_geterr(d);
        pcap_close(d);
    }
    ~Bpf() { if (ok) pcap_freecode(&p0); if (ok1) pcap_freecode(&p1); }
    Bpf(const Bpf&) = delete; Bpf& operator=(const Bpf&) = delete;
    // 1 match, 0 no match, -1 libpcap's optimized and unoptimized programs disagree (not decidable)
    int match(const u8* data, u32 caplen, u32 len) const {
        pcap_pkthdr h; memset(&h, 0, sizeof h); h.caplen = caplen; h.len = len;
        bool a = pcap_offline_filter(&p0, &h, data) != 0;
        if (ok1) { bool b = pcap_offline_filter(&p1, &h, data) != 0; if (a != b) { cnt("libpcap:optimizer-disagrees"); return -1; } }
        return a ? 1 : 0;
    }
};

static std::string gen_atom(Rng& r) {
    static const u32 LENS[] = {0, 14, 34, 42, 60, 64, 100, 1000, 65535};
    auto P = [&]() { return std::to_string(pk(r, PORTS)); }; auto N = [&]() { return std::to_string(pk(r, LENS)); };
    switch (r.below(26)) {
        case 0: return "ip"; case 1: return "ip6"; case 2: return "arp"; case 3: return "tcp"; case 4: return "udp"; case 5: return "icmp";
        case 6: return "tcp port " + P(); case 7: return "udp port " + P(); case 8: return "port " + P();
        case 9: return std::string(r.chance(1, 2) ? "src" : "dst") + " port " + P();
        case 10: return std::string("host ") + pk(r, IP4S); case 11: return std::string(r.chance(1, 2) ? "src" : "dst") + " host " + pk(r, IP4S);
        case 12: return "ip6 and udp"; case 13: return "not arp";
        case 14: return "len > " + N(); case 15: return "len <= " + N(); case 16: return "greater " + N(); case 17: return "less " + N();
        case 18: return std::string("ether host ") + pk(r, MACS); case 19: return std::string(r.chance(1, 2) ? "ether src " : "ether dst ") + pk(r, MACS);
        case 20: return "vlan"; case 21: return r.chance(1, 2) ? "vlan and ip" : "vlan " + std::to_string(r.below(4096));
        case 22: return r.chance(1, 2) ? "ip proto 17" : "ether proto 0x0800"; case 23: return r.chance(1, 2) ? "ip[8] > 64" : "tcp[13] & 2 != 0";
        case 24: return r.chance(1, 2) ? "wlan type mgt" : "wlan type data";
        default: return std::string("ip6 host ") + pk(r, IP6S);
    }
}
static std::string gen_filter(Rng& r) {
    switch (r.below(8)) {
        case 0: return "";
        case 1: return "not (" + gen_atom(r) + ")";
        case 2: return "(" + gen_atom(r) + ") and (" + gen_atom(r) + ")";
        case 3: return "(" + gen_atom(r) + ") or (" + gen_atom(r) + ")";
        case 4: return "((" + gen_atom(r) + ") or (" + gen_atom(r) + ")) and not (" + gen_atom(r) + ")";
        default: return gen_atom(r);
    }
}

// ---- reading monitor -----------------------------------------------------------------------------------
struct Reader {
    int lt; const std::vector<Frame>& fr; std::string ctx;
    size_t pos = 0; bool raw = false; const Bpf* filt = nullptr; bool failed = false, ended = false;
    std::map<u64, std::vector<int>> by_ts;
    long seg_budget = LONG_MAX, seg_delivered = 0; bool stop_by_false = false; int throw_mode = 0; Rng* rng = nullptr;
    Reader(int l, const std::vector<Frame>& f, const std::string& c) : lt(l), fr(f), ctx(c) {
        for (size_t i = 0; i < f.size(); ++i) by_ts[(u64)f[i].sec * 1000000ULL + f[i].usec].push_back((int)i);
    }
    std::string where(size_t j) const {
        std::string s = " :: " + ctx + " frame#" + std::to_string(j) + "/" + std::to_string(fr.size());
        if (j < fr.size()) s += " [" + std::string(FCLS[fr[j].cls]) + " caplen=" + std::to_string(fr[j].data.size()) + " len=" + std::to_string(fr[j].wire_len) + " ts=" + std::to_string(fr[j].sec) + "." + std::to_string(fr[j].usec) + " parse=" + (fr[j].parsed_ok ? "ok" : fr[j].exc) + " bytes=" + hex(fr[j].data, 160) + "]";
        if (filt) s += " filter='" + filt->expr + "'";
        if (raw) s += " raw-extraction";
        return s;
    }
    void fail(const std::string& key, const std::string& msg, size_t j) { violation(key, msg + where(j)); failed = true; }
    // 1 expected, 0 not expected, 2 either is fine (zero-length DLT_RAW frame / libpcap undecided)
    int expected(size_t j) const {
        const Frame& f = fr[j];
        int m = filt ? filt->match(f.data.data() ? f.data.data() : (const u8*)"", (u32)f.data.size(), f.wire_len) : 1;
        if (m == 0) return 0;
        if (raw) return m == 1 ? 1 : 2;
        if (lt == L_RAW && f.data.empty()) return 2;
        if (!f.parsed_ok) return 0;
        return m == 1 ? 1 : 2;
    }
    // one delivered packet. ts == nullptr: the driver does not expose the timestamp.
    bool on(PDU* pdu, const Timestamp* ts, const char* drv) {
        if (failed) return false;
        ++seg_delivered; cnt(std::string("delivered:") + drv);
        if (seg_budget != LONG_MAX && !stop_by_false && seg_delivered > seg_budget) { fail(std::string("chunk-size/") + drv, "sniff_loop(max_packets=" + std::to_string(seg_budget) + ") invoked the callback " + std::to_string(seg_delivered) + " times", pos); return false; }
        if (!pdu) { fail(std::string("null-pdu/") + drv, "a packet without PDU was delivered", pos); return false; }
        size_t j = fr.size();
        if (ts) {
            u64 key = (u64)ts->seconds() * 1000000ULL + (u64)ts->microseconds();
            auto it = by_ts.find(key);
            if (it == by_ts.end()) { fail(std::string("timestamp/") + drv, "delivered packet has timestamp " + std::to_string((long long)ts->seconds()) + "." + std::to_string((long long)ts->microseconds()) + " which no frame of the file has; next unread frame is", pos); return false; }
            for (int i : it->second) if ((size_t)i >= pos && expected((size_t)i) != 0) { j = (size_t)i; break; }      // several frames may share a timestamp
            if (j == fr.size()) for (int i : it->second) if ((size_t)i >= pos) { j = (size_t)i; break; }
            if (j == fr.size()) { fail(std::string("order/") + drv, "a frame before the read position was delivered (again); read position", pos); return false; }
            cnt("checks:timestamp");
        } else {
            for (size_t i = pos; i < fr.size(); ++i) if (expected(i) == 1) { j = i; break; }
            if (j == fr.size()) { fail(std::string("delivered-past-end/") + drv, "a packet was delivered although no deliverable frame remains after", pos); return false; }
        }
        for (size_t i = pos; i < j; ++i) if (expected(i) == 1) { fail(std::string("lost-frame/") + drv + "/" + LTS[lt].name, "frame #" + std::to_string(j) + " was delivered but an earlier deliverable frame was skipped:", i); return false; }
        int e = expected(j);
        if (e == 0) {
            bool fm = !filt || filt->match(fr[j].data.data() ? fr[j].data.data() : (const u8*)"", (u32)fr[j].data.size(), fr[j].wire_len) != 0;
            fail(std::string("delivered-unexpected/") + drv + "/" + (fm ? "does-not-parse" : "filtered-out") + "/" + LTS[lt].name, "a frame that must not be delivered was delivered as " + pdu_desc(pdu), j); return false;
        }
        cnt("checks:order");
        const Frame& f = fr[j];
        if (raw) {
            if (pdu->pdu_type() != PDU::RAW || pdu->inner_pdu()) { fail(std::string("raw-mode/type/") + drv, "raw extraction delivered " + pdu_desc(pdu), j); return false; }
            const RawPDU::payload_type& pl = static_cast<RawPDU*>(pdu)->payload();
            if (pl.size() != f.data.size() || (pl.size() && memcmp(pl.data(), f.data.data(), pl.size()) != 0)) { fail(std::string("bytes/raw-mode/") + drv, "raw extraction delivered " + std::to_string(pl.size()) + " bytes " + hex(pl.data(), pl.size(), 160) + " that differ from the frame", j); return false; }
            cnt("checks:bytes-raw");
        } else if (lt == L_RAW && f.data.empty()) { cnt("raw:zero-length-delivered");
        } else {
            std::string d = pdu_desc(pdu);
            if (d != f.desc) { fail(std::string("content/") + drv + "/" + LTS[lt].name, "delivered packet has structure {" + d + "} but the frame parses directly to {" + f.desc + "}", j); return false; }
            cnt("checks:structure");
            if (f.clean && f.rt_exact) {
                Bytes s;
                try { s = pdu->serialize(); } catch (...) { fail(std::string("bytes/serialize-throws/") + drv, "serialize() of the delivered packet threw " + current_exception_type(), j); return false; }
                if (s != f.data) { fail(std::string("bytes/") + drv + "/" + LTS[lt].name, "delivered packet serializes to " + hex(s, 160) + " which differs from the frame", j); return false; }
                cnt("checks:bytes-serialize");
            }
        }
        if (f.usec == 0 && ts) cnt("ts:usec=0"); if (f.usec == 999999 && ts) cnt("ts:usec=999999");
        pos = j + 1;
        return true;
    }
    // value for a sniff_loop callback to return; may throw one of the two exception types sniff_loop documents as swallowed
    bool cb_result(bool ok) {
        if (!ok) return false;
        if (stop_by_false && seg_delivered >= seg_budget) return false;
        if (throw_mode && rng->chance(1, 3)) { cnt("cb:threw-swallowed-type"); if (throw_mode == 1) throw malformed_packet(); throw pdu_not_found(); }
        return true;
    }
    void at_end(const char* drv) {
        ended = true;
        if (failed) return;
        for (size_t i = pos; i < fr.size(); ++i) if (expected(i) == 1) { fail(std::string("early-end/") + drv + "/" + LTS[lt].name, "the sniffer reported the end of the capture although a deliverable frame remains:", i); return; }
        pos = fr.size(); cnt("eof:reached");
    }
};

struct CbPacketRef { Reader* r; bool operator()(Packet& p) { return r->cb_result(r->on(p.pdu(), &p.timestamp(), "sniff_loop(Packet&)")); } };
struct CbConstPacketRef { Reader* r; bool operator()(const Packet& p) { return r->cb_result(r->on(const_cast<PDU*>(p.pdu()), &p.timestamp(), "sniff_loop(const Packet&)")); } };
struct CbPacketVal { Reader* r; bool operator()(Packet p) { return r->cb_result(r->on(p.pdu(), &p.timestamp(), "sniff_loop(Packet)")); } };
struct CbPduRef { Reader* r; bool operator()(PDU& p) { return r->cb_result(r->on(&p, nullptr, "sniff_loop(PDU&)")); } };
struct CbConstPduRef { Reader* r; bool operator()(const PDU& p) { return r->cb_result(r->on(const_cast<PDU*>(&p), nullptr, "sniff_loop(const PDU&)")); } };
struct Member { Reader* r; bool handle(PDU& p) { return r->cb_result(r->on(&p, nullptr, "sniff_loop(HandlerProxy)")); } };

static const int NDRV = 11;
// runs one segment (at most n deliveries, n == LONG_MAX: to the end) with driver d
static void run_segment(FileSniffer& sn, Reader& rd, int d, long n, Rng& rng) {
    rd.seg_budget = n; rd.seg_delivered = 0; rd.stop_by_false = false; rd.throw_mode = 0; rd.rng = &rng;
    const char* name = "?";
    try {
        switch (d) {
            case 0: name = "next_packet"; for (long i = 0; i < n && !rd.failed; ++i) { Packet p = sn.next_packet(); if (!p) { rd.at_end(name); break; } rd.on(p.pdu(), &p.timestamp(), name); } break;
            case 1: name = "next_packet(PDU*)"; for (long i = 0; i < n && !rd.failed; ++i) { PDU* raw = sn.next_packet(); std::unique_ptr<PDU> u(raw); if (!u) { rd.at_end(name); break; } rd.on(u.get(), nullptr, name); } break;
            case 2: case 3: case 4: case 5: case 6: case 7: {
                static const char* nm[] = {"sniff_loop(Packet&)", "sniff_loop(const Packet&)", "sniff_loop(Packet)", "sniff_loop(PDU&)", "sniff_loop(const PDU&)", "sniff_loop(HandlerProxy)"};
                name = nm[d - 2];
                rd.throw_mode = rng.chance(1, 3) ? 1 + (int)rng.below(2) : 0;
                u32 maxp = 0;
                if (n != LONG_MAX) { if (rng.chance(1, 2)) rd.stop_by_false = true; else maxp = (u32)n; }
                Member mem{&rd};
                switch (d) {
                    case 2: sn.sniff_loop(CbPacketRef{&rd}, maxp); break; case 3: sn.sniff_loop(CbConstPacketRef{&rd}, maxp); break; case 4: sn.sniff_loop(CbPacketVal{&rd}, maxp); break;
                    case 5: sn.sniff_loop(CbPduRef{&rd}, maxp); break; case 6: sn.sniff_loop(CbConstPduRef{&rd}, maxp); break; default: sn.sniff_loop(make_sniffer_handler(&mem, &Member::handle), maxp);
                }
                cnt(rd.stop_by_false ? "sniff_loop:stopped-by-false" : maxp ? "sniff_loop:max_packets" : "sniff_loop:to-end");
                if (!rd.failed && (n == LONG_MAX || rd.seg_delivered < n)) rd.at_end(name);
                break;
            }
            case 8: { name = "range-for"; bool broke = false; for (Packet& p : sn) { if (!rd.on(p.pdu(), &p.timestamp(), name)) { broke = true; break; } if (rd.seg_delivered >= n) { broke = true; break; } } if (!broke) rd.at_end(name); break; }
            case 9: { name = "iterator(++it)"; BaseSniffer::iterator it = sn.begin(), e = sn.end(); bool broke = false; while (it != e) { if (!rd.on(it->pdu(), &it->timestamp(), name) || rd.seg_delivered >= n) { broke = true; break; } ++it; } if (!broke) rd.at_end(name); break; }
            default: { name = "iterator(it++)"; BaseSniffer::iterator it = sn.begin(); bool broke = false; while (it != sn.end()) { Packet& p = *it; if (!rd.on(p.pdu(), &p.timestamp(), name) || rd.seg_delivered >= n) { broke = true; break; } BaseSniffer::iterator old = it++; if (old == sn.end() && it != sn.end()) { rd.fail("iterator/post-increment", "it++ returned an end iterator while it is not at the end", rd.pos); } } if (!broke) rd.at_end(name); break; }
        }
    } catch (...) {
        std::string t = current_exception_type();
        size_t j = rd.pos; for (size_t i = rd.pos; i < rd.fr.size(); ++i) if (!rd.fr[i].parsed_ok && rd.fr[i].exc == t) { j = i; break; }
        rd.fail(std::string("exception-escaped/") + name + "/" + t + "/" + LTS[rd.lt].name, "exception " + t + " escaped from the capture loop; first frame whose parser throws it (or read position):", j);
    }
    cnt(std::string("segments:") + name);
}

// ---- OfflinePacketFilter in caller-provided storage (content of the storage is chosen by the monitor) ------
struct OpfBox {
    alignas(16) unsigned char mem[sizeof(OfflinePacketFilter)]; OfflinePacketFilter* p = nullptr;
    ~OpfBox() { if (p) p->~OfflinePacketFilter(); }
    template <class T> void make_t(const std::string& e, long snap) { p = snap < 0 ? new (mem) OfflinePacketFilter(e, DataLinkType<T>()) : new (mem) OfflinePacketFilter(e, DataLinkType<T>(), (unsigned)snap); }
    void make(int lt, const std::string& e, long snap, int fill) {
        memset(mem, fill, sizeof mem);
        switch (lt) {
            case L_EN10MB: if (e.size() & 1) make_t<EthernetII>(e, snap); else make_t<Dot3>(e, snap); break;
            case L_DOT11: make_t<Dot11>(e, snap); break; case L_RADIO: make_t<RadioTap>(e, snap); break; case L_NULL: make_t<NullLinkTag>(e, snap); break;
            case L_SLL: make_t<SLL>(e, snap); break; case L_RAW: make_t<IP>(e, snap); break; default: make_t<PPI>(e, snap);
        }
    }
};

static std::string g_file;       // file of the running case (removed at the end of the case)
struct FileGuard { std::vector<std::string> names; ~FileGuard() { if (getenv("VERIF_KEEP_FILES")) { for (auto& n : names) fprintf(stderr, "kept %s\n", n.c_str()); return; } for (auto& n : names) unlink(n.c_str()); } };

// (c) OfflinePacketFilter against libpcap called directly, on every frame
static void check_offline(int lt, const std::vector<Frame>& fr, const std::string& expr, Rng& rng, const std::string& ctx) {
    static const long SNAPS[] = {-1, -1, 65535, 1, 96, 262144, 0};
    long snap = SNAPS[rng.below(7)]; u32 osnap = snap < 0 ? 65535 : (u32)snap;
    Bpf oracle(LTS[lt].dlt, osnap, expr);
    OpfBox a;
    try { a.make(lt, expr, snap, oracle.ok && oracle.ok1 ? 0xa5 : 0); }
    catch (invalid_pcap_filter&) { if (oracle.ok && oracle.ok1) violation("offline-filter/ctor-rejects-valid-filter", "OfflinePacketFilter threw invalid_pcap_filter for a filter libpcap compiles :: " + ctx + " filter='" + expr + "' snap_len=" + std::to_string(snap)); else cnt("offline:compile-error-thrown"); return; }
    catch (...) { violation("offline-filter/ctor-exception/" + current_exception_type(), "OfflinePacketFilter constructor threw " + current_exception_type() + " :: " + ctx + " filter='" + expr + "'"); return; }
    if (oracle.ok && !oracle.ok1) cnt("offline:never-matching-filter-accepted");
    if (!oracle.ok) { violation("offline-filter/ctor-accepts-invalid-filter", "OfflinePacketFilter was constructed for a filter libpcap rejects (" + oracle.err + ") :: " + ctx + " filter='" + expr + "' snap_len=" + std::to_string(snap)); return; }
    // copies: copy-constructed, and assigned over a filter of another expression / link type
    std::unique_ptr<OfflinePacketFilter> copy;
    OpfBox other; int olt = (int)rng.below(NLT); try { u32 oe = rng.below(4); other.make(olt, oe == 0 ? "len > 77" : oe == 1 ? "less 5" : expr, oe == 3 ? snap : 65535, 0); if (oe >= 2) cnt("offline:assigned-over-same-expression-other-linktype"); } catch (...) { other.p = nullptr; }
    try { copy.reset(new OfflinePacketFilter(*a.p)); if (other.p) { *other.p = *a.p; cnt("offline:assigned"); } }
    catch (...) { violation("offline-filter/copy-throws/" + current_exception_type(), "copying an OfflinePacketFilter threw " + current_exception_type() + " :: " + ctx + " filter='" + expr + "' snap_len=" + std::to_string(snap)); other.p = nullptr; return; }
    const OfflinePacketFilter* objs[3] = {a.p, copy.get(), other.p};
    static const char* onm[3] = {"constructed", "copy-constructed", "copy-assigned"};
    for (size_t j = 0; j < fr.size(); ++j) {
        const Frame& f = fr[j]; ExactBuf eb(f.data);
        int m = oracle.match(eb.data(), (u32)f.data.size(), (u32)f.data.size());
        if (m < 0) continue;
        int k = (int)rng.below(3); if (!objs[k]) k = 0;
        bool got = objs[k]->matches_filter(eb.data(), (u32)f.data.size());
        cnt("offline:buffer-checks"); cnt(m ? "offline:match" : "offline:no-match");
        if (got != (m == 1)) { violation(std::string("offline-filter/buffer/") + onm[k], std::string("matches_filter(buffer) = ") + (got ? "true" : "false") + " but libpcap says " + (m ? "match" : "no match") + " :: " + ctx + " filter='" + expr + "' snap_len=" + std::to_string(snap) + " frame#" + std::to_string(j) + " bytes=" + hex(f.data, 200)); return; }
        if (f.clean && f.parsed_ok && f.rt_exact && rng.chance(1, 2)) {
            std::unique_ptr<PDU> p(parse_top(lt, eb.data(), (u32)f.data.size()));
            Bytes s = p->serialize(); ExactBuf sb(s);
            int m2 = oracle.match(sb.data(), (u32)s.size(), (u32)s.size());
            if (m2 < 0) continue;
            bool g2 = objs[k]->matches_filter(*p);
            cnt("offline:pdu-checks");
            if (g2 != (m2 == 1)) { violation(std::string("offline-filter/pdu/") + onm[k], std::string("matches_filter(PDU&) = ") + (g2 ? "true" : "false") + " but libpcap says " + (m2 ? "match" : "no match") + " on its serialization :: " + ctx + " filter='" + expr + "' frame#" + std::to_string(j) + " bytes=" + hex(s, 200)); return; }
        }
    }
    // packets that were built through the API and never serialized (their length fields are not up to date yet): the filter must see what
    // serialize() produces, as libpcap does on those bytes
    if (lt != L_PPI) for (int t = 0; t < 3; ++t) {
        std::unique_ptr<PDU> fresh(gen_top(lt, rng)); int k = (int)rng.below(3); if (!objs[k]) k = 0;
        bool got; try { got = objs[k]->matches_filter(*fresh); } catch (...) { violation("offline-filter/pdu-exception/" + current_exception_type(), "matches_filter(PDU&) threw on an API-built packet :: " + ctx + " filter='" + expr + "'"); return; }
        Bytes s2 = fresh->serialize(); ExactBuf sb(s2); int m2 = oracle.match(sb.data(), (u32)s2.size(), (u32)s2.size()); if (m2 < 0) continue;
        cnt("offline:pdu-checks-on-never-serialized-packets");
        if (got != (m2 == 1)) { violation(std::string("offline-filter/pdu-fresh/") + onm[k], std::string("matches_filter(PDU&) = ") + (got ? "true" : "false") + " on a freshly built packet but libpcap says " + (m2 ? "match" : "no match") + " on its serialization :: " + ctx + " filter='" + expr + "' bytes=" + hex(s2, 200)); return; }
    }
    cnt("offline:filters");
}

// ---- (a) PacketWriter -------------------------------------------------------------------------------------
static PacketWriter* make_writer(const std::string& path, int lt, u32 variant, bool loop_probe) {
    switch (lt) {
        case L_EN10MB: switch (variant % 4) { case 0: return new PacketWriter(path, DataLinkType<EthernetII>()); case 1: return new PacketWriter(path, DataLinkType<Dot3>()); case 2: return new PacketWriter(path, PacketWriter::ETH2); default: return new PacketWriter(path, PacketWriter::DOT3); }
        case L_DOT11: return variant % 2 ? new PacketWriter(path, DataLinkType<Dot11>()) : new PacketWriter(path, PacketWriter::DOT11);
        case L_RADIO: return variant % 2 ? new PacketWriter(path, DataLinkType<RadioTap>()) : new PacketWriter(path, PacketWriter::RADIOTAP);
        case L_NULL: return loop_probe ? new PacketWriter(path, DataLinkType<Loopback>()) : new PacketWriter(path, DataLinkType<NullLinkTag>());
        case L_SLL: return variant % 2 ? new PacketWriter(path, DataLinkType<SLL>()) : new PacketWriter(path, PacketWriter::SLL);
        case L_RAW: return new PacketWriter(path, DataLinkType<IP>());
        default: return new PacketWriter(path, DataLinkType<PPI>());
    }
}
static void pick_ts(Rng& r, std::set<u64>& used, u32& sec, u32& usec) {
    for (;;) {
        sec = (u32)r.edgy(31);
        switch (r.below(6)) { case 0: usec = 0; break; case 1: usec = 999999; break; case 2: usec = 1; break; case 3: usec = 999998; break; default: usec = r.below(1000000); }
        if (used.insert((u64)sec * 1000000ULL + usec).second) return;
    }
}

struct Intended { std::unique_ptr<PDU> pdu; Bytes bytes; u32 sec = 0, usec = 0; bool exact_ts = true, clean = true, stale = false; };

// returns false when the case cannot continue (violation already reported)
static bool write_with_packet_writer(const std::string& path, int lt, Rng& rng, size_t n, bool probes, std::vector<Frame>& out, const std::string& ctx) {
    std::vector<Intended> in(n); std::set<u64> used;
    bool loop_probe = probes && lt == L_NULL && rng.chance(1, 4);
    for (auto& x : in) {
        if (lt != L_PPI && rng.chance(1, 12)) {
            // a packet parsed from a snap-truncated frame: the IP header advertises more than is there
            std::unique_ptr<PDU> full(gen_top(lt, rng)); Bytes b = full->serialize(); size_t cut = b.size() > 8 ? 1 + rng.below(6) : 0; b.resize(b.size() - cut);
            try { ExactBuf eb(b); x.pdu.reset(parse_top(lt, eb.data(), (u32)b.size())); } catch (...) {}
            x.clean = false;
            if (x.pdu) cnt("writer:packets-parsed-from-truncated-frame");
        }
        if (!x.pdu && rng.chance(1, 24)) { x.pdu.reset(new RawPDU((const uint8_t*)"", 0)); x.clean = false; cnt("writer:zero-length-packet"); }      // a packet that serializes to nothing is still a record (caplen 0)
        if (!x.pdu) { x.pdu.reset(gen_top(lt, rng)); x.clean = lt != L_PPI; }
        { std::unique_ptr<PDU> c(x.pdu->clone()); x.bytes = c->serialize(); }
        // a never-serialized packet still has its initial length fields (stale); half of the packets are serialized once before
        if (!probes || rng.chance(1, 2)) x.pdu->serialize(); else x.stale = true;
        pick_ts(rng, used, x.sec, x.usec);
    }
    timeval t0, t1; gettimeofday(&t0, 0);
    try {
        std::unique_ptr<PacketWriter> w(make_writer(path, lt, rng.below(4), loop_probe));
        for (size_t i = 0; i < n;) {
            if (rng.chance(1, 25)) { std::unique_ptr<PacketWriter> w2(new PacketWriter(std::move(*w))); w = std::move(w2); cnt("writer:moved"); }
            Intended& x = in[i];
            timeval tv; tv.tv_sec = x.sec; tv.tv_usec = x.usec;
            // a zero-length record gets an explicit (unique) timestamp: written with 'now' it can share its microsecond with its neighbour, and the reader's
            // frame matching is by timestamp
            switch (x.bytes.empty() ? 9u : rng.below(10)) {
                case 0: { x.exact_ts = false; w->write(*x.pdu); cnt("writer:write(PDU&)"); ++i; break; }
                case 1: { x.exact_ts = false; PDU* raw = x.pdu.get(); w->write(raw); cnt("writer:write(PDU*)"); ++i; break; }
                case 2: { x.exact_ts = false; w->write(x.pdu); cnt("writer:write(unique_ptr)"); ++i; break; }
                case 3: { size_t m = std::min<size_t>(n - i, 1 + rng.below(5)); for (size_t k = 1; k < m; ++k) if (in[i + k].bytes.empty()) { m = k; break; } std::vector<PDU*> v; for (size_t k = 0; k < m; ++k) { v.push_back(in[i + k].pdu.get()); in[i + k].exact_ts = false; } w->write(v.begin(), v.end()); cnt("writer:write(range)"); i += m; break; }
                case 4: { Packet pkt(x.pdu->clone(), Timestamp(std::chrono::microseconds((long long)x.sec * 1000000LL + x.usec)), Packet::own_pdu()); w->write(pkt); cnt("writer:write(Packet&,chrono)"); ++i; break; }
                default: { Packet pkt(*x.pdu, Timestamp(tv)); w->write(pkt); cnt("writer:write(Packet&)"); ++i; break; }
            }
        }
    } catch (...) { violation("writer/exception/" + current_exception_type(), "PacketWriter threw " + current_exception_type() + " :: " + ctx); return false; }
    gettimeofday(&t1, 0);
    // decode the file with the monitor's own decoder
    Bytes file; if (!read_all(path, file)) { violation("writer/no-file", "PacketWriter left no readable file :: " + ctx); return false; }
    auto bad = [&](const std::string& key, const std::string& msg) { violation(key, msg + " :: " + ctx + " file=" + hex(file, 120)); return false; };
    if (file.size() < 24) return bad("writer/global-header", "file shorter than a pcap global header (" + std::to_string(file.size()) + " bytes)");
    if (rd32(file, 0) != 0xa1b2c3d4u || (rd32(file, 4) & 0xffff) != 2 || (rd32(file, 4) >> 16) != 4) return bad("writer/global-header", "bad magic/version");
    if (loop_probe) {
        cnt("probe:DataLinkType<Loopback>");
        if (rd32(file, 20) != 0) {
            std::string rb = "not tried";
            try { FileSniffer s(path); Packet p = s.next_packet(); rb = p ? "delivers a packet" : "delivers nothing"; } catch (...) { rb = "throws " + current_exception_type(); }
            violation("writer/linktype/DataLinkType<Loopback>", "a PacketWriter opened with DataLinkType<Loopback> writes link type " + std::to_string(rd32(file, 20)) + " (DLT_LOOP: network-order family) although Loopback serializes the DLT_NULL format (host-order family: " + hex(in[0].bytes, 8) + "); reading it back with FileSniffer " + rb + " :: " + ctx);
            return false;
        }
    } else if (rd32(file, 20) != LTS[lt].file_lt) return bad("writer/global-header/linktype", "link type in file is " + std::to_string(rd32(file, 20)) + ", expected " + std::to_string(LTS[lt].file_lt));
    size_t o = 24; out.clear();
    for (size_t i = 0; i < n; ++i) {
        const Intended& x = in[i];
        std::string at = " (record #" + std::to_string(i) + " of " + std::to_string(n) + ", packet bytes " + hex(x.bytes, 120) + ")";
        if (o + 16 > file.size()) return bad("writer/record-count", "file ends before record" + at);
        u32 sec = rd32(file, o), usec = rd32(file, o + 4), incl = rd32(file, o + 8), orig = rd32(file, o + 12); o += 16;
        if (incl != x.bytes.size() || o + incl > file.size()) return bad("writer/caplen", "record has incl_len=" + std::to_string(incl) + " but the packet serializes to " + std::to_string(x.bytes.size()) + " bytes" + at);
        if (incl && memcmp(&file[o], x.bytes.data(), incl) != 0) return bad("writer/bytes", "record bytes " + hex(&file[o], incl, 120) + " differ from the packet's serialization" + at);
        if (orig < incl) cnt(std::string("observation:writer-orig-len-below-incl-len") + (x.stale ? "(never-serialized packet: PacketWriter takes orig_len from advertised_size() before serialize())" : ""));   // not part of the C17 statement (bytes, order and timestamps round-trip): observation only
        else if (x.clean && !x.stale && orig != incl) return bad("writer/orig-len", "record of an API-built packet has orig_len=" + std::to_string(orig) + " != incl_len=" + std::to_string(incl) + at);
        if (x.exact_ts) { if (sec != x.sec || usec != x.usec) return bad("writer/timestamp", "record timestamp " + std::to_string(sec) + "." + std::to_string(usec) + " != packet timestamp " + std::to_string(x.sec) + "." + std::to_string(x.usec) + at); cnt("writer:timestamps-exact"); }
        else { if ((long)sec + 2 < (long)t0.tv_sec || (long)sec > (long)t1.tv_sec + 2 || usec > 999999) return bad("writer/wallclock-timestamp", "record timestamp " + std::to_string(sec) + "." + std::to_string(usec) + " is not the time of the write(PDU&) call" + at); cnt("writer:timestamps-wallclock"); }
        Frame f; f.data = x.bytes; f.wire_len = orig; f.sec = sec; f.usec = usec; f.cls = F_WRITER; f.clean = x.clean;
        out.push_back(std::move(f)); o += incl; cnt("writer:records-verified");
    }
    if (o != file.size()) return bad("writer/record-count", "file has " + std::to_string(file.size() - o) + " bytes after the last record");
    cnt("writer:files");
    return true;
}

// ---- (b) arbitrary frames through the monitor's own encoder -------------------------------------------------------
static Bytes serialized(PDU* p) { std::unique_ptr<PDU> u(p); return u->serialize(); }
static void gen_frame(int lt, Rng& r, Frame& f, int& bigs) {
    u32 c = r.below(100);
    if (c < 42) { f.data = serialized(gen_top(lt, r)); f.cls = F_VALID; f.clean = lt != L_PPI; }
    else if (c < 58) {
        f.data = serialized(gen_top(lt, r)); f.cls = F_MUTATED;
        switch (r.below(4)) {
            case 0: for (u32 k = 1 + r.below(3); k && !f.data.empty(); --k) f.data[r.below((u32)f.data.size())] ^= (u8)(1u << r.below(8)); break;
            case 1: f.data.resize(r.below((u32)f.data.size() + 1)); break;
            case 2: { Bytes x = r.bytes(1 + r.below(40)); f.data.insert(f.data.end(), x.begin(), x.end()); break; }
            default: for (u32 k = 1 + r.below(4); k && !f.data.empty(); --k) f.data[r.below(std::min<u32>((u32)f.data.size(), 40))] = r.byte();
        }
    }
    else if (c < 72) { f.data = r.bytes(r.chance(1, 12) ? r.below(2000) : r.below(80)); f.cls = F_RANDOM; }
    else if (c < 78) { f.cls = F_ZERO; }
    else if (c < 86) { f.data = serialized(gen_top(lt, r)); f.data.resize(r.below(std::min<u32>((u32)f.data.size(), 30) + 1)); f.cls = F_SHORT; }
    else if (c < 88 && bigs < 2) { ++bigs; f.cls = F_BIG; if (r.chance(1, 2)) f.data = r.bytes(65535); else { f.data = serialized(gen_top(lt, r)); Bytes x = r.bytes(65535 - f.data.size()); f.data.insert(f.data.end(), x.begin(), x.end()); } }
    else {
        f.cls = F_SPECIAL;
        switch (lt) {
            case L_RAW: f.data = serialized(gen_top(lt, r)); { u8 v; do v = (u8)r.below(16); while (v == 4 || v == 6); f.data[0] = (u8)((v << 4) | (f.data[0] & 15)); } cnt("special:raw-bad-version"); break;
            case L_PPI: switch (r.below(5)) {
                case 0: f.data = gen_ppi_bytes(r, (int)pk(r, (const int[]){DLT_RAW, 189, 147, 0x7fffffff, 50})); cnt("special:ppi-unknown-dlt"); break;
                case 1: f.data = gen_ppi_bytes(r); f.data.resize(8 + ((u32)f.data[2] | (u32)f.data[3] << 8) - 8); cnt("special:ppi-header-only"); break;
                case 2: f.data = gen_ppi_bytes(r); f.data[2] = 0xff; f.data[3] = 0x7f; cnt("special:ppi-length-beyond-frame"); break;
                case 3: f.data = gen_ppi_bytes(r); f.data[2] = (u8)r.below(8); f.data[3] = 0; cnt("special:ppi-length-below-header"); break;
                default: { f.data.clear(); f.data.push_back(0); f.data.push_back(0); le16(f.data, 32); le32(f.data, DLT_IEEE802_11); le16(f.data, 2); le16(f.data, 20); for (int i = 0; i < 8; ++i) f.data.push_back(0); le16(f.data, 1); for (int i = 0; i < 10; ++i) f.data.push_back(0); Bytes x = r.bytes(1 + r.below(3)); f.data.insert(f.data.end(), x.begin(), x.end()); cnt("special:ppi-fcs-flag-short-payload"); }
            } break;
            case L_RADIO: f.data = serialized(gen_top(lt, r)); if (r.chance(1, 2)) { f.data[2] = 0xff; f.data[3] = 0xff; } else f.data.resize(std::min<size_t>(f.data.size(), 4 + r.below(8))); cnt("special:radiotap-bad-length"); break;
            case L_EN10MB: f.data = serialized(gen_top(lt, r)); if (f.data.size() > 13) f.data[12] = (u8)(6 + r.below(4)); if (r.chance(1, 3)) f.data.resize(12 + r.below(4)); cnt("special:dot3-boundary"); break;
            default: f.data = serialized(gen_top(lt, r)); f.data.resize(r.below(5)); cnt("special:tiny");
        }
    }
    f.wire_len = (u32)f.data.size();
    if (r.chance(1, 10)) {     // snap-truncated record: caplen < len
        if (r.chance(1, 2) && f.data.size() > 1) { f.data.resize(1 + r.below((u32)f.data.size() - 1)); f.clean = false; } else f.wire_len += 1 + r.below(2000);
        if (f.wire_len != f.data.size()) cnt("frames:caplen<len");
    }
}

static size_t pick_count(Rng& r, bool thorough) {
    u32 c = r.below(100);
    if (c < 35) return r.below(9);            // 0..8
    if (c < 78) return 9 + r.below(52);
    if (c < (thorough ? 95u : 97u)) return 61 + r.below(240);
    return 301 + r.below(700);               // up to 1000
}

// ---- reading a file back through FileSniffer ---------------------------------------------------------------------
static void read_back(const std::string& path, int lt, const std::vector<Frame>& fr, u32 file_snap, bool use_filter, const std::string& expr, Rng& rng, const std::string& ctx) {
    std::vector<std::unique_ptr<Bpf>> filters;
    Reader rd(lt, fr, ctx);
    std::unique_ptr<FileSniffer> sn;
    for (int attempt = 0; attempt < 2 && !sn; ++attempt) {
        Bpf* oracle = nullptr;
        if (use_filter) { filters.emplace_back(new Bpf(LTS[lt].dlt, file_snap, expr, path)); oracle = filters.back().get(); }
        u32 v = rng.below(use_filter ? 5 : 4); bool via_set = false;
        SnifferConfiguration cfg;
        if (rng.chance(1, 2)) cfg.set_pcap_sniffing_method(rng.chance(1, 2) ? pcap_dispatch : pcap_loop);
        if (rng.chance(1, 4)) { cfg.set_snap_len(1 + rng.below(64)); cfg.set_timeout(rng.below(5)); cfg.set_promisc_mode(true); cfg.set_immediate_mode(true); }   // live-capture options: no effect on files
        if (use_filter) cfg.set_filter(expr);
        try {
            switch (v) {
                case 0: sn.reset(new FileSniffer(path, cfg)); cnt("open:path+config"); break;
                case 1: { FILE* fp = fopen(path.c_str(), "rb"); if (!fp) { violation("harness/cannot-open-file", path); return; } sn.reset(new FileSniffer(fp, cfg)); cnt("open:FILE*+config"); break; }
                case 2: sn.reset(new FileSniffer(path, use_filter ? expr : std::string())); cnt("open:path+filter-string"); break;
                case 3: { FILE* fp = fopen(path.c_str(), "rb"); if (!fp) { violation("harness/cannot-open-file", path); return; } sn.reset(new FileSniffer(fp, use_filter ? expr : std::string())); cnt("open:FILE*+filter-string"); break; }
                default: { sn.reset(new FileSniffer(path)); via_set = true; bool r = sn->set_filter(expr); cnt("open:path-then-set_filter");
                    if (r != oracle->ok && (oracle->ok1 || !oracle->ok)) { violation("sniffer-filter/set_filter-return", std::string("set_filter returned ") + (r ? "true" : "false") + " but libpcap " + (oracle->ok ? "compiles the filter" : "rejects the filter (" + oracle->err + ")") + " :: " + ctx + " filter='" + expr + "'"); return; }
                    if (!r) { cnt("filter:compile-error-reported"); use_filter = false; oracle = nullptr; } }
            }
        } catch (invalid_pcap_filter&) {
            sn.reset();
            if (!use_filter || (oracle->ok && oracle->ok1)) { violation("sniffer-filter/ctor-rejects-valid-filter", "FileSniffer threw invalid_pcap_filter for a filter libpcap compiles :: " + ctx + " filter='" + expr + "'"); return; }
            cnt("filter:compile-error-reported"); use_filter = false; continue;      // read the file without a filter instead
        } catch (...) { violation("open/exception/" + current_exception_type(), "opening the capture threw " + current_exception_type() + " :: " + ctx); return; }
        if (use_filter && !via_set && !oracle->ok) { violation("sniffer-filter/ctor-accepts-invalid-filter", "FileSniffer was constructed with a filter libpcap rejects (" + oracle->err + ") :: " + ctx + " filter='" + expr + "'"); return; }
        if (use_filter) { rd.filt = oracle; cnt("filter:files"); }
    }
    if (!sn) return;
    if (sn->link_type() != LTS[lt].dlt) { violation("open/link-type", "link_type() = " + std::to_string(sn->link_type()) + " :: " + ctx); return; }
    if (rng.chance(1, 6)) { rd.raw = true; sn->set_extract_raw_pdus(true); cnt("raw-mode:on"); }
    while (!rd.ended && !rd.failed) {
        if (rng.chance(1, 8)) { rd.raw = !rd.raw; sn->set_extract_raw_pdus(rd.raw); cnt("raw-mode:toggled"); }
        if (rng.chance(1, 10)) {
            std::string e2 = gen_filter(rng); std::unique_ptr<Bpf> b2(new Bpf(LTS[lt].dlt, file_snap, e2, path));
            bool r = sn->set_filter(e2);
            if (r != b2->ok && (b2->ok1 || !b2->ok)) { rd.fail("sniffer-filter/set_filter-return", std::string("set_filter('") + e2 + "') returned " + (r ? "true" : "false") + " but libpcap " + (b2->ok ? "compiles it" : "rejects it"), rd.pos); break; }
            if (r) { filters.push_back(std::move(b2)); rd.filt = filters.back().get(); cnt("set_filter:midfile-applied"); } else cnt("set_filter:midfile-rejected");
        }
        if (rng.chance(1, 25)) { std::unique_ptr<FileSniffer> s2(new FileSniffer(std::move(*sn))); sn = std::move(s2); cnt("sniffer:moved"); }
        long n = rng.chance(1, 3) ? LONG_MAX : (long)(1 + rng.below(rng.chance(1, 4) ? 40 : 6));
        run_segment(*sn, rd, (int)rng.below(NDRV), n, rng);
    }
    if (rd.failed) return;
    // clean end: the sniffer stays at the end
    try {
        Packet p = sn->next_packet();
        if (p) { violation("after-end/next_packet-delivers", "next_packet() delivered a packet after the end of the capture had been reported :: " + ctx); return; }
        if (sn->begin() != sn->end()) { violation("after-end/begin-not-end", "begin() != end() after the end of the capture :: " + ctx); return; }
        size_t c = 0; sn->sniff_loop([&](PDU&) { ++c; return true; });
        if (c) { violation("after-end/sniff_loop-delivers", "sniff_loop delivered packets after the end of the capture :: " + ctx); return; }
        cnt("eof:stays-at-end");
    } catch (...) { violation("exception-escaped/after-end/" + current_exception_type(), "exception after the end of the capture :: " + ctx); }
}

// file-level errors must surface as pcap_error, never as a crash or another exception
static void file_level_errors(Rng& rng, const std::string& base, FileGuard& g) {
    auto expect_pcap_error = [&](const char* what, const std::function<void()>& f) {
        try { f(); violation(std::string("open/accepted/") + what, std::string("no exception for ") + what); }
        catch (pcap_error&) { cnt(std::string("open-error:") + what); }
        catch (...) { violation(std::string("open/exception/") + current_exception_type() + "/" + what, "threw " + current_exception_type() + " instead of pcap_error for " + what); }
    };
    expect_pcap_error("missing-file", [&]() { FileSniffer s(base + ".missing"); });
    std::string p = base + ".bad"; g.names.push_back(p);
    Bytes b = rng.bytes(rng.below(40)); if (b.size() >= 4) b[0] = 0x11;      // not a pcap/pcapng magic
    if (!write_all(p, b)) return;
    expect_pcap_error("bad-magic", [&]() { FileSniffer s(p, SnifferConfiguration()); });
    expect_pcap_error("bad-magic-FILE*", [&]() { FILE* fp = fopen(p.c_str(), "rb"); if (!fp) throw pcap_error("harness"); try { FileSniffer s(fp, SnifferConfiguration()); } catch (...) { fclose(fp); throw; } });
    expect_pcap_error("writer-unwritable-path", [&]() { PacketWriter w("c17-no-such-dir/x.pcap", DataLinkType<EthernetII>()); });
}

static void one_case(long idx, Rng& rng) {
    const Args& a = st().a; bool thorough = a.tier == "thorough"; bool probes = a.geti("probes", 1) != 0;
    int lt = (int)(idx % NLT);
    bool writer_kind = rng.chance(35, 100);
    size_t n = pick_count(rng, thorough); if (writer_kind && n == 0) n = 1;
    bool use_filter = rng.chance(1, 2); std::string expr = use_filter ? gen_filter(rng) : "";
    std::string path = "c17_w" + std::to_string(a.worker) + "_" + std::to_string(idx) + ".pcap";
    FileGuard guard; guard.names.push_back(path);
    std::string ctx = std::string("lt=") + LTS[lt].name + (writer_kind ? " written-by=PacketWriter" : " written-by=own-encoder") + " frames=" + std::to_string(n);
    // bounded probe of the crash in OfflinePacketFilter's constructor (kills the worker: rare and tier-independent)
    bool crash_probe = probes && idx < 512 && idx % 32 == 7;
    std::string head = ctx + (use_filter ? " filter='" + expr + "'" : "") + (crash_probe ? " kf=offline-filter-compile-error" : "");
    describe_case(head);
    cnt(std::string("files:") + LTS[lt].name);
    if (rng.chance(1, 50)) file_level_errors(rng, path, guard);

    std::vector<Frame> fr; u32 file_snap = 65535; const char* tail = "clean";
    if (writer_kind) {
        if (!write_with_packet_writer(path, lt, rng, n, probes, fr, ctx)) return;
    } else {
        fr.resize(n); std::set<u64> used; int bigs = rng.chance(1, 8) ? 0 : 2;
        for (auto& f : fr) { gen_frame(lt, rng, f, bigs); pick_ts(rng, used, f.sec, f.usec); }
        if (rng.chance(1, 6)) file_snap = 262144;
        Bytes file = pcap_header(LTS[lt].file_lt, file_snap);
        for (auto& f : fr) pcap_record(file, f);
        switch (rng.below(10)) {       // what follows the last complete record
            case 0: { Bytes x = rng.bytes(1 + rng.below(15)); file.insert(file.end(), x.begin(), x.end()); tail = "partial-record-header"; break; }
            case 1: { u32 L = 1 + rng.below(100); le32(file, 7); le32(file, 7); le32(file, L); le32(file, L); Bytes x = rng.bytes(rng.below(L)); file.insert(file.end(), x.begin(), x.end()); tail = "partial-record-data"; break; }
            case 2: { le32(file, 7); le32(file, 7); le32(file, 0x7fffffffu); le32(file, 0x7fffffffu); Bytes x = rng.bytes(rng.below(40)); file.insert(file.end(), x.begin(), x.end()); tail = "bogus-record-length"; break; }
            default: break;
        }
        cnt(std::string("eof:") + tail);
        if (!write_all(path, file)) { violation("harness/cannot-write-file", "cannot write " + path); return; }
    }
    ctx += std::string(" tail=") + tail;
    // parses(f) for every frame, called directly
    u64 sg = mix(fnv(expr), (u64)lt * 2 + writer_kind); std::string summary;
    for (size_t i = 0; i < fr.size(); ++i) {
        Frame& f = fr[i]; f.analyze(lt);
        cnt("frames"); cnt(std::string("frames:") + FCLS[f.cls]);
        if (f.parsed_ok) { cnt("frames:parse"); if (f.clean && f.rt_exact) cnt("frames:reserialize-exactly"); }
        else if (f.exc == "malformed_packet") cnt("frames:parser-throws-malformed_packet"); else if (f.exc == "no-parser") cnt("frames:no-parser-applies"); else cnt("frames:parser-throws-OTHER:" + f.exc);
        if (f.data.size() == 65535) cnt("frames:65535-bytes"); if (f.data.empty()) cnt("frames:0-bytes");
        sg = mix(sg, (u64)f.cls * 1000003ULL + f.data.size() * 2 + f.parsed_ok);
        if (i < 40) summary += std::string(" ") + FCLS[f.cls] + ":" + std::to_string(f.data.size()) + (f.parsed_ok ? "" : "!") + (fr.size() <= 6 ? "=" + hex(f.data, 80) : "");
    }
    describe_case(head + " tail=" + tail + " |" + summary);
    sig(sg); cnt_max("max_frames_in_file", fr.size());
    if (want_sample() && fr.size() >= 2 && fr.size() <= 6) sample(head + " |" + summary);

    if (use_filter) check_offline(lt, fr, expr, rng, ctx);
    if (crash_probe) {
        // object storage holds whatever was there before: make that deterministic (0x5a) and compile something libpcap rejects
        cnt("probe:offline-filter-compile-error");
        OpfBox b; try { b.make(lt, "ip and and", 65535, 0x5a); violation("offline-filter/ctor-accepts-invalid-filter", "constructed from 'ip and and'"); } catch (invalid_pcap_filter&) { cnt("offline:compile-error-thrown"); }
    }
    read_back(path, lt, fr, file_snap, use_filter, expr, rng, ctx);
    // a second, independent pass in raw-extraction mode over the whole file with one driver: every frame, exact bytes
    if (rng.chance(1, 4)) {
        Reader rd(lt, fr, ctx + " pass=raw"); rd.raw = true;
        try { FileSniffer sn(path); sn.set_extract_raw_pdus(true); run_segment(sn, rd, (int)rng.below(NDRV), LONG_MAX, rng); if (!rd.failed && !rd.ended) rd.fail("early-end/raw-pass", "driver returned before the end", rd.pos); cnt("raw-pass:files"); }
        catch (...) { violation("open/exception/" + current_exception_type(), "raw pass: " + ctx); }
    }
}

int main(int argc, char** argv) {
    return vf::run(argc, argv, "C17", [](long idx, Rng& rng) {
        try { one_case(idx, rng); }
        catch (...) { violation("unexpected-exception/" + current_exception_type(), "an exception nobody expects left the case: " + current_exception_type()); }
    });
}
