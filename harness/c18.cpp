// C18 — independent objects can be used from different threads without data races.
// k threads run seeded mixtures of the other properties' workloads on THREAD-PRIVATE objects under ThreadSanitizer;
// after the start barrier the monitor adds no happens-before edge between workers (relaxed counters, per-thread logs
// merged after join). Every thread's digest must equal the digest of the same calls run alone afterwards.
// Each case runs in a fresh process and all threads start with the same kind of operation, so first-use (lazy
// initialisation) races are hit cold.
#include "verif.h"
#include "pktgen.h"
#include <tins/tcp_ip/data_tracker.h>
#include <tins/tcp_ip/flow.h>
#include <tins/tcp_ip/ack_tracker.h>
#include <tins/tcp_ip/stream_follower.h>
#include <tins/ip_reassembler.h>
#include <tins/tcp_stream.h>
#include <tins/crypto.h>
#include <tins/utils/checksum_utils.h>
#include <fstream>
#include <unordered_set>
using namespace Tins;
using namespace vf;

static std::vector<Bytes> g_seeds;          // read-only after start-up
static std::vector<Bytes> g_ccmp, g_tkip;   // the unit tests' WPA2 captures (beacon, 4-way handshake, data), in order
static std::atomic<u64> g_ticket{0};

struct OpLog { u64 t0, t1; int kind; };
struct ThreadCtx { u64 seed; int first_kind; u32 nops; u64 digest = 0; std::vector<OpLog> log; std::vector<u64> per_op; bool stamp; std::vector<std::unique_ptr<PDU>> own; };      // own: this thread's private copies of packets every thread got a copy of
static thread_local std::vector<std::unique_ptr<PDU>>* tl_own = nullptr;

static const char* KIND[] = {"parse", "build-serialize", "dns-edit", "radiotap", "reassembly", "follower", "crypto", "addresses", "utils"};
static const int NK = 9;

static u64 dig_bytes(const Bytes& b, u64 h) { return fnv(b.data(), b.size(), h ^ (b.size() * 0x9e3779b97f4a7c15ULL)); }
static u64 dig_pdu(PDU& p, u64 h) {
    for (const PDU* q = &p; q; q = q->inner_pdu()) { h = mix(h, (u64)q->pdu_type()); h = mix(h, q->header_size()); }
    h = mix(h, p.size());
    const IP* ip = dynamic_cast<const IP*>(&p);
    if (!(ip && (uint32_t)ip->src_addr() == 0) && !dynamic_cast<PPI*>(&p) && !dynamic_cast<PKTAP*>(&p)) { try { h = dig_bytes(p.serialize(), h); } catch (const std::exception& e) { h = mix(h, fnv(std::string(typeid(e).name()))); } }
    return h;
}

// marks: which sub-steps really completed (filled only by the sequential reference run on the main thread)
static thread_local std::map<std::string, u64>* tl_marks = nullptr;
static inline void mark(const char* k) { if (tl_marks) ++(*tl_marks)[k]; }
template <class F> static u64 guarded(const char* what, u64 h, F f) {   // one refused sub-step must not hide the ones after it
    try { h = f(h); mark(what); } catch (const std::exception& e) { h = mix(h, fnv(std::string(typeid(e).name()))); if (tl_marks) ++(*tl_marks)[std::string(what) + ":threw:" + typeid(e).name()]; }
    return h;
}
static u64 op_parse(Rng& r) {
    u64 h = 1; const Bytes& s = g_seeds[r.below((u32)g_seeds.size())]; Bytes b = s;
    for (u32 k = r.below(3); k-- && !b.empty();) { u32 pos = r.below((u32)b.size()); switch (r.below(4)) { case 0: b[pos] ^= (u8)(1 << r.below(8)); break; case 1: b.resize(pos); break; case 2: b[pos] = r.byte(); break; default: b.push_back(r.byte()); } }
    u32 which = r.below(12);
    try {
        std::unique_ptr<PDU> p;
        switch (which) { case 0: case 1: case 2: p.reset(new EthernetII(b.data(), (u32)b.size())); break; case 3: p.reset(new IP(b.data(), (u32)b.size())); break; case 4: p.reset(new IPv6(b.data(), (u32)b.size())); break;
            case 5: p.reset(new RadioTap(b.data(), (u32)b.size())); break; case 6: p.reset(Dot11::from_bytes(b.data(), (u32)b.size())); break; case 7: p.reset(new DNS(b.data(), (u32)b.size())); break;
            case 8: p.reset(new DHCP(b.data(), (u32)b.size())); break; case 9: p.reset(new Loopback(b.data(), (u32)b.size())); break; case 10: p.reset(new SLL(b.data(), (u32)b.size())); break; default: p.reset(new Dot3(b.data(), (u32)b.size())); }
        if (p) { h = dig_pdu(*p, h); std::unique_ptr<PDU> c(p->clone()); h = dig_pdu(*c, h);
            if (DNS* d = p->find_pdu<DNS>()) { try { for (auto& q : d->queries()) h = mix(h, fnv(q.dname())); for (auto& a : d->answers()) h = mix(h, fnv(a.dname() + a.data())); } catch (const exception_base&) { h = mix(h, 77); } }
            if (TCP* t = p->find_pdu<TCP>()) { try { h = mix(h, t->mss()); } catch (const exception_base&) { h = mix(h, 78); } }
            if (DHCP* d = p->find_pdu<DHCP>()) { try { h = mix(h, d->type()); } catch (const exception_base&) { h = mix(h, 79); } } }
    } catch (const malformed_packet&) { h = mix(h, 0xbad); }
    return h;
}
// copies of one original handed to different threads are independent objects: each thread copies, edits and destroys its own
static u64 op_own_copies(Rng& r, u64 h) {
    if (!tl_own || tl_own->empty()) return h;
    for (u32 k = 1 + r.below(3); k--;) { std::unique_ptr<PDU>& mine = (*tl_own)[r.below((u32)tl_own->size())];
        std::unique_ptr<PDU> c(mine->clone()); h = dig_pdu(*c, h);
        if (TCP* t = c->find_pdu<TCP>()) { TCP t2(*t); t2 = *t; h = mix(h, t2.options().size()); if (!t->options().empty()) { TCP::option o = t->options().front(); TCP::option o2(o); o2 = o; h = mix(h, o2.data_size()); } }
        if (r.chance(1, 2)) mine = std::move(c);      // the old copy dies on this thread
        mark("build:own-copy-of-common-original"); }
    return h;
}
static u64 op_build(Rng& r) {
    PktGen g(r); int rk = 0; std::unique_ptr<PDU> p(g.packet(&rk)); u64 h = dig_pdu(*p, 2); std::unique_ptr<PDU> c(p->clone()); h = dig_pdu(*c, h);
    // ... and parsed back from its own bytes through the entry point of its link type: generated packets nest tunnels, VLANs, label stacks, extension
    // headers and every option family far more often than the unit tests' captures do (dispatch tables, allocator registries, per-protocol helpers)
    const IP* ip = dynamic_cast<const IP*>(p.get());
    if (!(ip && (uint32_t)ip->src_addr() == 0)) { try { Bytes y = p->serialize(); std::unique_ptr<PDU> q;
        switch (rk) { case 0: q.reset(new EthernetII(y.data(), (u32)y.size())); break; case 1: q.reset(new Dot3(y.data(), (u32)y.size())); break; case 2: q.reset(new RadioTap(y.data(), (u32)y.size())); break; case 3: q.reset(Dot11::from_bytes(y.data(), (u32)y.size())); break;
            case 4: q.reset(new SLL(y.data(), (u32)y.size())); break; case 5: q.reset(new Loopback(y.data(), (u32)y.size())); break; default: if (!y.empty() && (y[0] >> 4) == 6) q.reset(new IPv6(y.data(), (u32)y.size())); else q.reset(new IP(y.data(), (u32)y.size())); }
        if (q) { h = dig_pdu(*q, h); mark("build:reparsed"); bool tunnel = false; int ipl = 0; for (const PDU* x = q.get(); x; x = x->inner_pdu()) if (x->pdu_type() == PDU::IP || x->pdu_type() == PDU::IPv6) ++ipl; tunnel = ipl >= 2; if (tunnel) mark("build:reparsed-with-ip-tunnel"); } }
      catch (const std::exception& e) { h = mix(h, fnv(std::string(typeid(e).name()))); } }
    return op_own_copies(r, h);
}
static u64 op_dns(Rng& r) {
    DNS d; d.id((u16)r.next()); u64 h = 3;
    for (u32 k = 1 + r.below(6); k--;) { std::string n = "h" + std::to_string(r.below(50)) + ".example" + std::to_string(r.below(3)) + ".org";
        switch (r.below(4)) { case 0: d.add_query(DNS::query(n, DNS::A, DNS::INTERNET)); break; case 1: d.add_answer(DNS::resource(n, "10.1.2." + std::to_string(r.below(250)), DNS::A, DNS::INTERNET, r.below(1000))); break;
            case 2: d.add_authority(DNS::resource(n, "ns." + n, DNS::NS, DNS::INTERNET, 5)); break; default: d.add_additional(DNS::resource(n, "mail." + n, DNS::MX, DNS::INTERNET, 9, 10)); } }
    Bytes y = d.serialize(); h = dig_bytes(y, h); DNS q(y.data(), (u32)y.size());
    for (auto& a : q.answers()) h = mix(h, fnv(a.dname() + "|" + a.data())); for (auto& a : q.additional()) h = mix(h, fnv(a.dname() + "|" + a.data())); for (auto& a : q.queries()) h = mix(h, fnv(a.dname()));
    return h;
}
static u64 op_radiotap(Rng& r) {
    RadioTap t; u64 h = 4;
    for (u32 k = 1 + r.below(8); k--;) switch (r.below(8)) { case 0: t.tsft(r.next()); break; case 1: t.rate(r.byte()); break; case 2: t.channel((u16)(2412 + r.below(60)), (u16)r.next()); break; case 3: t.dbm_signal((int8_t)r.byte()); break;
        case 4: t.antenna(r.byte()); break; case 5: t.rx_flags((u16)r.next()); break; case 6: t.tx_flags((u16)r.next()); break; default: t.data_retries(r.byte()); }
    t.flags((RadioTap::FrameFlags)(r.chance(1, 2) ? RadioTap::FCS : 0));
    Dot11Data d(HWAddress<6>("00:01:02:03:04:05"), HWAddress<6>("00:01:02:03:04:06")); Bytes b = r.bytes(1 + r.below(40)); d.inner_pdu(new RawPDU(b.data(), (u32)b.size())); t.inner_pdu(d);
    Bytes y = t.serialize(); h = dig_bytes(y, h);
    try { RadioTap q(y.data(), (u32)y.size()); h = mix(h, q.present()); h = mix(h, q.size()); } catch (const malformed_packet&) { h = mix(h, 0xbad); }
    return h;
}
static u64 op_reassembly(Rng& r) {
    u64 h = 5; Bytes s = r.bytes(64 + r.below(400)); u32 isn = (u32)r.next();
    { TCPIP::DataTracker t(isn); std::vector<std::pair<u32, u32>> segs; for (u32 o = 0; o < s.size();) { u32 l = 1 + r.below(40); if (o + l > s.size()) l = (u32)s.size() - o; segs.push_back({o, l}); o += l; }
      for (size_t i = segs.size(); i > 1; --i) std::swap(segs[i - 1], segs[r.below((u32)i)]);
      for (auto& g : segs) { t.process_payload(isn + g.first, Bytes(s.begin() + g.first, s.begin() + g.first + g.second)); h = mix(h, t.total_buffered_bytes()); } h = dig_bytes(t.payload(), h); }
    { IPv4Reassembler re; Bytes pl = r.bytes(24 + 8 * r.below(20)); u16 id = (u16)r.next(); std::vector<u32> offs; for (u32 o = 0; o < pl.size(); o += 8 * (1 + r.below(3))) offs.push_back(o);
      for (size_t i = offs.size(); i > 1; --i) std::swap(offs[i - 1], offs[r.below((u32)i)]);
      std::vector<u32> sorted = offs; std::sort(sorted.begin(), sorted.end());
      for (u32 o : offs) { auto it = std::upper_bound(sorted.begin(), sorted.end(), o); u32 end = it == sorted.end() ? (u32)pl.size() : *it; IP ip("10.0.0.2", "10.0.0.1"); ip.id(id); ip.protocol(17); ip.fragment_offset((u16)(o / 8)); ip.flags(end == pl.size() ? (IP::Flags)0 : IP::MORE_FRAGMENTS);
          ip.inner_pdu(new RawPDU(&pl[o], end - o)); Bytes w = ip.serialize(); IP parsed(w.data(), (u32)w.size()); IPv4Reassembler::PacketStatus stt = re.process(parsed); h = mix(h, (u64)stt); if (stt == IPv4Reassembler::REASSEMBLED) h = dig_pdu(parsed, h); } }
    { TCPIP::AckTracker a(isn); TCP t(1, 2); t.flags(TCP::ACK); t.ack_seq(isn + 100); std::vector<u32> sk = {isn + 200, isn + 300, isn + 400, isn + 450}; t.sack(sk); a.process_packet(t); h = mix(h, a.ack_number()); h = mix(h, a.is_segment_acked(isn + 200, 50)); h = mix(h, a.is_segment_acked(isn + 100, 150)); }
    return h;
}
static u64 op_follower(Rng& r) {
    u64 h = 6; TCPIP::StreamFollower f; u64 got = 0; u64 cb = 0;
    f.new_stream_callback([&](TCPIP::Stream& st) { ++cb; st.client_data_callback([&](TCPIP::Stream& s) { got = fnv(s.client_payload().data(), s.client_payload().size(), got + 1); }); st.server_data_callback([&](TCPIP::Stream& s) { got = fnv(s.server_payload().data(), s.server_payload().size(), got + 2); }); });
    u32 ci = (u32)r.next(), si = (u32)r.next(); u16 cp = (u16)(1024 + r.below(60000));
    auto pkt = [&](bool c2s, u32 seq, u32 ack, u16 flags, const Bytes& pl) { TCP t(c2s ? 80 : cp, c2s ? cp : 80); t.seq(seq); t.ack_seq(ack); t.flags(flags); EthernetII e = EthernetII() / IP(c2s ? "10.0.0.2" : "10.0.0.1", c2s ? "10.0.0.1" : "10.0.0.2") / t; if (!pl.empty()) e.rfind_pdu<TCP>().inner_pdu(new RawPDU(pl.data(), (u32)pl.size())); f.process_packet(e); };
    pkt(true, ci, 0, TCP::SYN, {}); pkt(false, si, ci + 1, TCP::SYN | TCP::ACK, {}); pkt(true, ci + 1, si + 1, TCP::ACK, {});
    Bytes a = r.bytes(50 + r.below(200)), b = r.bytes(50 + r.below(200)); u32 half = (u32)a.size() / 2;
    pkt(true, ci + 1 + half, si + 1, TCP::ACK, Bytes(a.begin() + half, a.end())); pkt(true, ci + 1, si + 1, TCP::ACK, Bytes(a.begin(), a.begin() + half)); pkt(false, si + 1, ci + 1 + (u32)a.size(), TCP::ACK, b);
    pkt(true, ci + 1 + (u32)a.size(), si + 1 + (u32)b.size(), TCP::FIN | TCP::ACK, {}); pkt(false, si + 1 + (u32)b.size(), ci + 2 + (u32)a.size(), TCP::FIN | TCP::ACK, {});
    // the legacy follower on its own small capture: stream identifiers are a per-follower sequence (0, 1, ...)
    { TCPStreamFollower lf; std::vector<EthernetII> cap; u64 ids = 0;
      for (u32 c = 0, n = 2 + r.below(3); c < n; ++c) { u16 p2 = (u16)(2000 + c); u32 i1 = (u32)r.next(), i2 = (u32)r.next();
          { TCP t(80, p2); t.flags(TCP::SYN); t.seq(i1); cap.push_back(EthernetII() / IP("10.1.0.2", "10.1.0.1") / t); }
          { TCP t(p2, 80); t.flags(TCP::SYN | TCP::ACK); t.seq(i2); t.ack_seq(i1 + 1); cap.push_back(EthernetII() / IP("10.1.0.1", "10.1.0.2") / t); }
          { TCP t(80, p2); t.flags(TCP::ACK); t.seq(i1 + 1); t.ack_seq(i2 + 1); Bytes d = r.bytes(10 + r.below(40)); cap.push_back(EthernetII() / IP("10.1.0.2", "10.1.0.1") / t / RawPDU(d.data(), (u32)d.size())); } }
      struct Cb { u64* ids; bool operator()(TCPStream& st) const { *ids = mix(*ids, st.id()); *ids = fnv(st.client_payload().data(), st.client_payload().size(), *ids); return true; } };
      lf.follow_streams(cap.begin(), cap.end(), Cb{&ids}); h = mix(h, ids); mark("follower:legacy-stream-ids"); }
    return mix(mix(h, got), cb);
}
static u64 op_crypto(Rng& r) {
    u64 h = 7;
    h = guarded("crypto:wep", h, [&](u64 h) { Crypto::WEPDecrypter w; w.add_password(HWAddress<6>("00:0e:a6:6b:fb:69"), "abcde"); Dot11Data d(HWAddress<6>("00:0e:a6:6b:fb:69"), HWAddress<6>("00:12:f0:1b:f4:e7")); d.addr3(HWAddress<6>("00:0e:a6:6b:fb:69")); d.wep(1); d.to_ds(1);
      Bytes body = r.bytes(8 + r.below(60)); d.inner_pdu(new RawPDU(body.data(), (u32)body.size())); h = mix(h, w.decrypt(d)); return dig_pdu(d, h); });
    h = guarded("crypto:wpa2-explicit-keys", h, [&](u64 h) { Crypto::WPA2Decrypter w; Bytes ptk = r.bytes(Crypto::WPA2::SessionKeys::PTK_SIZE); Crypto::WPA2::SessionKeys::ptk_type p(ptk.begin(), ptk.end()); HWAddress<6> ap("02:00:00:00:00:01"), stn("02:00:00:00:00:02");
      w.add_decryption_keys(std::make_pair(ap, stn), Crypto::WPA2::SessionKeys(p, r.chance(1, 2)));
      Dot11QoSData d(ap, stn); d.addr3(ap); d.to_ds(1); d.wep(1); Bytes body = r.bytes(20 + r.below(80)); d.inner_pdu(new RawPDU(body.data(), (u32)body.size())); RadioTap rt; rt.inner_pdu(d); h = mix(h, w.decrypt(rt)); return mix(h, rt.size()); });
    if (r.chance(1, 4)) h = guarded("crypto:pbkdf2", h, [&](u64 h) { Crypto::WPA2::SupplicantData sd("passphrase" + std::to_string(r.below(4)), "ssid" + std::to_string(r.below(4))); return fnv(sd.pmk().data(), sd.pmk().size(), h); });
    // a complete 4-way handshake + data frames from the unit tests' captures (PBKDF2, PRF, MIC verification, CCMP/TKIP)
    if (r.chance(1, 3) && g_ccmp.size() >= 7 && g_tkip.size() >= 7) h = guarded("crypto:handshake-capture", h, [&](u64 h) { bool ccmp = r.chance(1, 2); Crypto::WPA2Decrypter w; if (ccmp) w.add_ap_data("Induction", "Coherer"); else w.add_ap_data("libtinstest", "NODO");
        u32 dec = 0; for (const Bytes& b : (ccmp ? g_ccmp : g_tkip)) { try { RadioTap rt(b.data(), (u32)b.size()); bool ok = w.decrypt(rt); h = mix(h, ok); if (ok) { h = dig_pdu(rt, h); ++dec; } } catch (const malformed_packet&) { h = mix(h, 0xbad); } }
        h = mix(h, w.get_keys().size()); for (auto& kv : w.get_keys()) h = fnv(kv.second.get_ptk().data(), kv.second.get_ptk().size(), h);
        if (dec) mark("crypto:handshake-capture:frames-decrypted"); if (!w.get_keys().empty()) mark("crypto:handshake-capture:keys-derived"); return h; });
    // key derivation + EAPOL MIC verification in a tight loop, on this thread's own copies of two different handshakes: anything the derivation
    // parks in storage shared between threads (inside libtins or behind the calls it makes) is overwritten by a neighbour working on the other handshake
    if (r.chance(1, 2) && g_ccmp.size() >= 7 && g_tkip.size() >= 7) h = guarded("crypto:session-keys-loop", h, [&](u64 h) {
        struct Hs { bool ready = false; std::vector<RSNHandshake> hs; Crypto::WPA2::SupplicantData::pmk_type pmk; };
        static thread_local Hs cache[2];
        for (int which = 0; which < 2; ++which) { Hs& c = cache[which]; if (c.ready) continue; c.ready = true;
            RSNHandshakeCapturer cap; for (const Bytes& b : (which ? g_tkip : g_ccmp)) { try { RadioTap rt(b.data(), (u32)b.size()); cap.process_packet(rt); } catch (const malformed_packet&) {} }
            c.hs.assign(cap.handshakes().begin(), cap.handshakes().end());
            Crypto::WPA2::SupplicantData sd(which ? "libtinstest" : "Induction", which ? "NODO" : "Coherer"); c.pmk = sd.pmk(); }
        for (u32 it = 0; it < 40; ++it) { Hs& c = cache[r.below(2)]; if (c.hs.empty()) { h = mix(h, 0x0e); continue; }
            try { Crypto::WPA2::SessionKeys k(c.hs[0], c.pmk); h = fnv(k.get_ptk().data(), k.get_ptk().size(), h); h = mix(h, k.uses_ccmp()); mark("crypto:session-keys-derived"); }
            catch (const Crypto::WPA2::invalid_handshake&) { h = mix(h, 0xbad4a5d); mark("crypto:session-keys-rejected"); } }
        return h; });
    return h;
}
static u64 op_addresses(Rng& r) {
    u64 h = 8; IPv4Address a((u32)r.next()); h = mix(h, fnv(a.to_string())); IPv4Address b(a.to_string()); h = mix(h, (u32)b);
    uint8_t raw[16]; for (auto& c : raw) c = r.chance(1, 3) ? 0 : r.byte(); IPv6Address v6(raw); std::string s6 = v6.to_string(); h = mix(h, fnv(s6)); IPv6Address back(s6); h = fnv(back.begin(), 16, h);
    uint8_t m[6]; for (auto& c : m) c = r.byte(); HWAddress<6> hw(m); h = mix(h, fnv(hw.to_string())); HWAddress<6> hb(hw.to_string()); h = mix(h, std::hash<HWAddress<6>>()(hb) == std::hash<HWAddress<6>>()(hw));
    IPv4Range rg = a / (24 + r.below(7)); u32 n = 0; if (rg.is_iterable()) for (const auto& x : rg) { h = mix(h, (u32)x); if (++n > 300) break; }
    IPv6Range r6 = v6 / (120 + r.below(7)); n = 0; if (r6.is_iterable()) for (const auto& x : r6) { h = fnv(x.begin(), 16, h); if (++n > 300) break; }
    h = mix(h, rg.contains(b)); std::unordered_set<IPv4Address> us; us.insert(a); us.insert(b); h = mix(h, us.size());
    return h;
}
static u64 op_utils(Rng& r) {
    u64 h = 9;
    // an outermost IP layer without source address asks the routing table for one while it is serialized (loopback destinations: no network needed)
    if (r.chance(1, 3)) { try { IP ip(r.chance(1, 2) ? "127.0.0.1" : "127.0.0.2"); Bytes b2 = r.bytes(4 + r.below(20)); ip /= RawPDU(b2.data(), (u32)b2.size()); Bytes y = ip.serialize(); h = fnv(y.data(), y.size(), h); mark("utils:ip-root-without-source-serialized"); } catch (const std::exception& e) { h = mix(h, fnv(std::string(typeid(e).name()))); mark("utils:ip-root-without-source-threw"); } } Bytes b = r.bytes(r.below(300)); h = mix(h, Utils::crc32(b.data(), (u32)b.size())); h = mix(h, Utils::sum_range(b.data(), b.data() + b.size()));
    h = mix(h, fnv(Utils::to_string((PDU::PDUType)r.below(60)))); h = mix(h, Utils::channel_to_mhz((u16)(1 + r.below(13))));
    h = mix(h, Utils::pseudoheader_checksum(IPv4Address((u32)r.next()), IPv4Address((u32)r.next()), (u16)r.next(), 6));
    return h;
}
static u64 run_op(int kind, Rng& r) {
    try {
        switch (kind) { case 0: return op_parse(r); case 1: return op_build(r); case 2: return op_dns(r); case 3: return op_radiotap(r); case 4: return op_reassembly(r); case 5: return op_follower(r); case 6: return op_crypto(r); case 7: return op_addresses(r); default: return op_utils(r); }
    } catch (const std::exception& e) { if (tl_marks) ++(*tl_marks)[std::string("op_threw:") + KIND[kind] + ":" + typeid(e).name()]; return mix(0xdead, fnv(std::string(typeid(e).name()))); }
}
static void work(ThreadCtx& c) {
    Rng r(c.seed); u64 h = 0; tl_own = &c.own;
    for (u32 i = 0; i < c.nops; ++i) {
        int kind = i == 0 ? c.first_kind : (int)r.below(NK);
        u64 seed2 = r.next(); Rng r2(seed2);
        u64 t0 = c.stamp ? g_ticket.fetch_add(1, std::memory_order_relaxed) : 0;
        u64 d = run_op(kind, r2); if (tl_marks) ++(*tl_marks)[std::string("op_done:") + KIND[kind]];
        u64 t1 = c.stamp ? g_ticket.fetch_add(1, std::memory_order_relaxed) : 0;
        c.log.push_back({t0, t1, kind}); c.per_op.push_back(d); h = mix(h, d);
        if (c.stamp && (seed2 & 7) == 0) sched_yield();
    }
    c.digest = h;
}
static pthread_barrier_t g_bar;
static void* thread_main(void* p) { pthread_barrier_wait(&g_bar); work(*(ThreadCtx*)p); return nullptr; }

int main(int argc, char** argv) {
    return vf::run(argc, argv, "C18", [&](long idx, Rng& r) {
        static const int ks[] = {2, 4, 8, 16};
        int k = ks[(idx / NK) % 4]; int first = (int)(idx % NK); u32 nops = st().a.tier == "thorough" ? 400 : 120;
        describe_case("threads=" + std::to_string(k) + " first-op=" + KIND[first] + " ops/thread=" + std::to_string(nops));
        // common originals (options with heap payloads among them); every thread, and later the sequential reference, gets its own copies made HERE
        std::vector<std::unique_ptr<PDU>> protos;
        { Rng pr(r.next()); for (int i = 0; i < 4; ++i) { PktGen g(pr); protos.emplace_back(g.packet()); }
          TCP t(80, 81); Bytes big = pr.bytes(24); t.add_option(TCP::option((TCP::OptionTypes)30, big.begin(), big.end())); t.mss(1460); protos.emplace_back(new EthernetII(EthernetII() / IP("10.0.0.1", "10.0.0.2") / t / RawPDU("payload")));
          DHCP d; d.domain_name("a-domain-name-longer-than-eight.example"); d.lease_time(77); d.end(); protos.emplace_back(new EthernetII(EthernetII() / IP("10.0.0.1", "10.0.0.2") / UDP(67, 68) / d));
          Dot11Beacon b; b.ssid("an ssid of more than eight octets"); b.supported_rates(Dot11ManagementFrame::rates_type(10, 1.0f)); protos.emplace_back(new RadioTap(RadioTap() / b)); }
        auto copies = [&](std::vector<std::unique_ptr<PDU>>& out) { out.clear(); for (auto& p : protos) out.emplace_back(p->clone()); };
        std::vector<ThreadCtx> ctx(k); for (int t = 0; t < k; ++t) { ctx[t].seed = r.next(); ctx[t].first_kind = first; ctx[t].nops = nops; ctx[t].stamp = true; copies(ctx[t].own); }
        pthread_barrier_init(&g_bar, 0, k);
        std::vector<pthread_t> th(k); pthread_attr_t at; pthread_attr_init(&at); pthread_attr_setstacksize(&at, (size_t)64 << 20);
        for (int t = 0; t < k; ++t) pthread_create(&th[t], &at, thread_main, &ctx[t]);
        for (int t = 0; t < k; ++t) pthread_join(th[t], 0);
        pthread_barrier_destroy(&g_bar);
        // sequential reference: the same per-thread seeds, one after the other, on this thread
        for (int t = 0; t < k; ++t) { ThreadCtx ref; ref.seed = ctx[t].seed; ref.first_kind = first; ref.nops = nops; ref.stamp = false; copies(ref.own); std::map<std::string, u64> marks; tl_marks = &marks; work(ref); tl_marks = nullptr; for (auto& m : marks) cnt(m.first, m.second);
            if (ref.digest != ctx[t].digest) { size_t i = 0; while (i < ref.per_op.size() && ref.per_op[i] == ctx[t].per_op[i]) ++i; int kind = i < ctx[t].log.size() ? ctx[t].log[i].kind : -1;
                violation(std::string("digest-differs/") + (kind >= 0 ? KIND[kind] : "?"), "thread " + std::to_string(t) + " of " + std::to_string(k) + ": operation #" + std::to_string(i) + " (" + (kind >= 0 ? KIND[kind] : "?") + ") produced a different result than the same call sequence run alone"); }
            else cnt("thread_digests_equal"); }
        // which pairs of operation kinds really overlapped in time (ticket intervals intersect)
        std::set<std::pair<int, int>> ov; u64 overlaps = 0;
        for (int a = 0; a < k; ++a) for (int b = a + 1; b < k; ++b) { size_t j = 0; for (auto& x : ctx[a].log) { while (j < ctx[b].log.size() && ctx[b].log[j].t1 < x.t0) ++j; for (size_t q = j; q < ctx[b].log.size() && ctx[b].log[q].t0 <= x.t1; ++q) { ov.insert({std::min(x.kind, ctx[b].log[q].kind), std::max(x.kind, ctx[b].log[q].kind)}); ++overlaps; } } }
        for (auto& p : ov) { cnt(std::string("overlap:") + KIND[p.first] + "|" + KIND[p.second]); sig(mix((u64)p.first * 100 + p.second, (u64)k)); }
        cnt("overlapping_operation_pairs", overlaps); cnt("threads_run", k); cnt("operations", (u64)k * nops); cnt(std::string("cold-start:") + KIND[first]);
        sig(mix(fnv(std::string("case")), (u64)idx));
        if (want_sample()) sample("threads=" + std::to_string(k) + " first-op=" + KIND[first] + " distinct overlapping kind pairs=" + std::to_string(ov.size()));
    }, [&]() {
        std::ifstream f(st().a.get("corpus")); std::string tag, hx; while (f >> tag >> hx) { g_seeds.push_back(unhex(hx)); if (tag.find("::ccmp_packets.") != std::string::npos) g_ccmp.push_back(g_seeds.back()); if (tag.find("::tkip_packets.") != std::string::npos) g_tkip.push_back(g_seeds.back()); }
        if (g_seeds.empty()) { fprintf(stderr, "no seeds\n"); _exit(3); }
    });
}
