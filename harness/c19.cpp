// C19 — ACK/SACK tracker agrees with a set-of-acknowledged-bytes model.
// A receiver simulator (own code) turns a random arrival order of a segmented stream into the ACK + SACK
// packets a conforming receiver emits; the delivered ones are encoded as real TCP PDUs (TCP::sack(), a raw
// option encoded here, or a complete wire image encoded here and parsed by libtins) and fed to the real
// AckTracker (directly or through Flow). After EVERY processed packet ack_number(), acked_intervals() and a
// sweep of is_segment_acked(seq,len) queries are compared with a byte map of acknowledged bytes indexed by
// offset from the ISN.
#include "verif.h"
#include <tins/tins.h>
#include <tins/tcp_ip/ack_tracker.h>
#include <tins/tcp_ip/flow.h>
#include <algorithm>
#include <memory>
using namespace Tins;
using namespace Tins::TCPIP;
using namespace vf;

// ---- cheap evidence counters (flushed into vf::cnt once per case) ---------------------------------
#define CTRS(X) \
    X(packets_processed, "packets") X(packets_lost, "br:ack-packet-lost") X(chk_ack, "checks:ack_number") X(chk_iv, "checks:acked_intervals") \
    X(queries, "queries") X(q_true_below, "q:true-below-ack") X(q_true_sack, "q:true-inside-sacked") X(q_false_straddle_ack, "q:false-straddles-ack") \
    X(q_false_hole, "q:false-crosses-hole") X(q_false_unacked, "q:false-unacked") X(q_wrap_true, "q:wraps-2^32-true") X(q_wrap_false, "q:wraps-2^32-false") \
    X(q_before_isn, "q:starts-before-isn") X(q_len0, "q:len0") X(q_exact_run, "q:exactly-a-sacked-run") X(q_run_plus1, "q:sacked-run-plus-one-byte") \
    X(br_ack_adv, "br:ack-advances") X(br_ack_same, "br:ack-unchanged") X(br_ack_over_sacked, "br:ack-advance-erases-sacked") \
    X(br_ack_wrap, "br:ack-jumps-across-2^32") X(br_ack_wrap_before_only, "br:ack-jumps-across-2^32-sacked-only-before") X(br_ack_wrap_both, "br:ack-jumps-across-2^32-sacked-both-sides") \
    X(br_ack_to_zero, "br:ack-lands-on-seq-0") X(br_ack_to_max, "br:ack-lands-on-seq-2^32-1") X(br_ack_half, "br:ack-jumps-across-2^31") \
    X(br_blk_wrap, "br:sack-block-wraps-2^32") X(br_blk_end0, "br:sack-block-right-edge-0") X(br_blk_start0, "br:sack-block-left-edge-0") X(br_blk_half, "br:sack-block-spans-2^31") \
    X(br_blk_at_ack1, "br:one-byte-hole-at-ack") X(br_blk_adjacent, "br:adjacent-blocks-in-packet") X(br_blk_new, "br:block-adds-bytes") X(br_blk_old, "br:block-already-known") \
    X(br_blk_joins, "br:block-joins-known-run") \
    X(b0, "blocks:0") X(b1, "blocks:1") X(b2, "blocks:2") X(b3, "blocks:3") X(b4, "blocks:4") \
    X(iv_split_wrap, "br:sacked-run-spans-2^32") X(iv_nonempty, "br:intervals-nonempty") X(iv_many, "br:intervals>=3") \
    X(enc_sack, "enc:TCP::sack") X(enc_raw, "enc:raw-option") X(enc_wire, "enc:wire-TCP-parsed") X(enc_wire_ip, "enc:wire-IP-parsed") X(enc_reparse, "enc:serialize-reparse") X(enc_ts, "enc:timestamp-before-sack") \
    X(drv_direct, "histories:AckTracker") X(drv_flow, "histories:Flow") X(drv_nosack, "histories:sack-disabled-start") X(h_wrap, "histories:wrap-2^32-inside") X(h_lossy, "histories:lossy") \
    X(h_directed_wrap, "histories:directed-ack-across-wrap") X(h_directed_hole, "histories:directed-one-byte-hole")
enum Ctr {
#define X(a, b) C_##a,
    CTRS(X)
#undef X
    C_N
};
static const char* ctr_names[] = {
#define X(a, b) b,
    CTRS(X)
#undef X
};
static u64 C[C_N];
static void flush_ctrs() { for (int i = 0; i < C_N; ++i) if (C[i]) { cnt(ctr_names[i], C[i]); C[i] = 0; } }

typedef std::pair<u32, u32> Blk;                    // [first, second) as offsets from the ISN
struct Pkt { u32 ack; std::vector<Blk> blocks; bool delivered; int arrival; };
struct History {
    u32 n = 0, isn = 0; std::vector<u32> bnd;       // segment i = [bnd[i], bnd[i+1])
    std::vector<int> order; std::vector<char> forced;   // forced[a]: ACK of arrival a delivered? (empty = probabilistic)
    int maxb = 4, coalesce = 0; bool vary = false; u32 lnum = 0, lden = 1, dup_den = 0;
    int ctor = 0;          // 0 AckTracker(isn) 1 AckTracker(isn,true) 2 AckTracker(isn,false)+use_sack() later 3 AckTracker()+use_sack() later (isn 0) 4 through Flow
    int sack_at = 0;       // number of processed packets after which use_sack() is called (ctor 2/3)
    std::vector<Pkt> pkts; std::string tag;
};

static std::string show(const History& h) {
    std::string d = "n=" + std::to_string(h.n) + " isn=" + std::to_string(h.isn) + " ctor=" + std::to_string(h.ctor) + " sack_at=" + std::to_string(h.sack_at) +
                    " maxb=" + std::to_string(h.maxb) + " coalesce=" + std::to_string(h.coalesce) + (h.tag.empty() ? "" : " " + h.tag) + " bnd=";
    for (size_t i = 0; i < h.bnd.size() && i < 200; ++i) d += std::to_string(h.bnd[i]) + ",";
    d += " order=";
    for (size_t i = 0; i < h.order.size() && i < 200; ++i) d += std::to_string(h.order[i]) + (h.forced.empty() ? "," : (h.forced[i] ? "," : "x,"));
    if (h.order.size() > 200) d += "...";
    return d;
}
static std::string show_pkt(const History& h, const Pkt& p) {
    std::string d = "ack=" + std::to_string((u32)(h.isn + p.ack)) + "(off " + std::to_string(p.ack) + ") sack=";
    for (auto& b : p.blocks) d += "[" + std::to_string((u32)(h.isn + b.first)) + "," + std::to_string((u32)(h.isn + b.second)) + ")(off " + std::to_string(b.first) + ".." + std::to_string(b.second) + ")";
    return d;
}

// ---- receiver simulator: what a conforming SACK receiver sends after each arrival -------------------
static void simulate(History& h, Rng& r) {
    size_t S = h.order.size(); std::vector<char> got(S, 0); size_t nxt = 0; std::vector<Blk> runs;    // runs: most recently changed first
    h.pkts.clear();
    for (size_t a = 0; a < S; ++a) {
        int i = h.order[a]; got[i] = 1; while (nxt < S && got[nxt]) ++nxt;
        u32 ack = h.bnd[nxt]; Blk nb(h.bnd[i], h.bnd[i + 1]);
        if (nb.first > ack) {
            bool co = h.coalesce == 0 || (h.coalesce == 2 && r.chance(1, 2));
            if (co) for (size_t j = 0; j < runs.size();) {
                if (runs[j].second == nb.first) { nb.first = runs[j].first; runs.erase(runs.begin() + j); }
                else if (runs[j].first == nb.second) { nb.second = runs[j].second; runs.erase(runs.begin() + j); }
                else ++j;
            }
            runs.insert(runs.begin(), nb);
        }
        for (size_t j = 0; j < runs.size();) { if (runs[j].first < ack) runs.erase(runs.begin() + j); else ++j; }   // now cumulatively acknowledged
        Pkt p; p.ack = ack; p.arrival = (int)a;
        size_t k = h.vary ? r.below((u32)h.maxb + 1) : (size_t)h.maxb;
        for (size_t j = 0; j < runs.size() && j < k; ++j) p.blocks.push_back(runs[j]);
        p.delivered = h.forced.empty() ? !r.chance(h.lnum, h.lden) : (bool)h.forced[a];
        h.pkts.push_back(p);
        if (h.dup_den && r.chance(1, h.dup_den)) { p.delivered = r.chance(1, 2); h.pkts.push_back(p); }     // plain duplicate ACK (same state)
    }
}

// ---- the model: byte map of what the tracker has been told -----------------------------------------
struct Model {
    static const long M = 40;                        // margin of queryable bytes before the ISN / after the stream
    u32 n; std::vector<u8> bit; u32 k = 0; u64 nset = 0; u32 hi = 0;     // hi: one past the highest set offset
    explicit Model(u32 n_) : n(n_), bit((size_t)n_ + 2 * M, 0) { memset(bit.data(), 1, M); }     // bytes before the ISN lie below the cumulative ACK
    bool add(u32 a, u32 b) {                          // returns true if new bytes became acknowledged
        if (a >= b) return false;
        if (!memchr(&bit[M + a], 0, b - a)) return false;
        for (u32 i = a; i < b; ++i) if (!bit[M + i]) { bit[M + i] = 1; ++nset; }
        if (b > hi) hi = b;
        return true;
    }
    void settle() { while (k < n && bit[M + k]) ++k; }
    bool all(long off, u32 len) const { return len == 0 || !memchr(&bit[(size_t)(M + off)], 0, len); }
    bool any(long off, u32 len) const { return len && memchr(&bit[(size_t)(M + off)], 1, len); }
    std::vector<Blk> runs() const {                   // maximal acknowledged runs above k
        std::vector<Blk> v; u32 p = k;
        while (p < hi) {
            const u8* s = (const u8*)memchr(&bit[M + p], 1, hi - p); if (!s) break;
            u32 a = (u32)(s - &bit[M]); const u8* e = (const u8*)memchr(&bit[M + a], 0, hi - a); u32 b = e ? (u32)(e - &bit[M]) : hi;
            v.push_back(Blk(a, b)); p = b;
        }
        return v;
    }
};

// ---- packet encoders -------------------------------------------------------------------------------
static void be16(Bytes& b, u16 v) { b.push_back((u8)(v >> 8)); b.push_back((u8)v); }
static void be32(Bytes& b, u32 v) { b.push_back((u8)(v >> 24)); b.push_back((u8)(v >> 16)); b.push_back((u8)(v >> 8)); b.push_back((u8)v); }
static Bytes sack_value(const History& h, const Pkt& p) { Bytes v; for (auto& b : p.blocks) { be32(v, h.isn + b.first); be32(v, h.isn + b.second); } return v; }
static Bytes wire_tcp(const History& h, const Pkt& p, bool ts, Rng& r) {
    Bytes opt;
    if (ts) { opt.push_back(1); opt.push_back(1); opt.push_back(8); opt.push_back(10); be32(opt, (u32)r.next()); be32(opt, (u32)r.next()); }
    if (!p.blocks.empty()) { Bytes v = sack_value(h, p); opt.push_back(1); opt.push_back(1); opt.push_back(5); opt.push_back((u8)(2 + v.size())); opt.insert(opt.end(), v.begin(), v.end()); }
    bool eol = r.chance(1, 4); while (opt.size() % 4) opt.push_back(eol ? 0 : 1);
    Bytes w; be16(w, 80); be16(w, 40000); be32(w, (u32)r.next()); be32(w, h.isn + p.ack);
    w.push_back((u8)(((20 + opt.size()) / 4) << 4)); w.push_back(0x10); be16(w, 65535); be16(w, 0); be16(w, 0);
    w.insert(w.end(), opt.begin(), opt.end());
    return w;
}
static Bytes wire_ip(const Bytes& tcp) {
    Bytes w; w.push_back(0x45); w.push_back(0); be16(w, (u16)(20 + tcp.size())); be16(w, 7); be16(w, 0x4000); w.push_back(64); w.push_back(6); be16(w, 0);
    be32(w, 0x0a000002); be32(w, 0x0a000001); w.insert(w.end(), tcp.begin(), tcp.end());
    return w;
}
static std::unique_ptr<PDU> encode(const History& h, const Pkt& p, Rng& r) {
    u32 enc = r.below(8); std::unique_ptr<PDU> out;
    bool ts = p.blocks.size() <= 3 && r.chance(1, 3);
    if (enc >= 6) {                                   // complete wire image built here, parsed by libtins
        Bytes t = wire_tcp(h, p, ts, r); if (ts) ++C[C_enc_ts];
        if (enc == 6) { ExactBuf eb(t); out.reset(new TCP(eb.data(), (u32)t.size())); ++C[C_enc_wire]; }
        else { Bytes ipw = wire_ip(t); ExactBuf eb(ipw); out.reset(new IP(eb.data(), (u32)ipw.size())); ++C[C_enc_wire_ip]; }
        return out;
    }
    TCP tcp(80, 40000); tcp.seq((u32)r.next()); tcp.ack_seq(h.isn + p.ack); tcp.flags(TCP::ACK);
    if (ts) { tcp.timestamp((u32)r.next(), (u32)r.next()); ++C[C_enc_ts]; }
    if (enc < 3) {
        if (!p.blocks.empty()) { TCP::sack_type e; for (auto& b : p.blocks) { e.push_back(h.isn + b.first); e.push_back(h.isn + b.second); } tcp.sack(e); }
        ++C[C_enc_sack];
    } else {
        if (!p.blocks.empty()) { Bytes v = sack_value(h, p); tcp.add_option(TCP::option(TCP::SACK, v.size(), v.data())); }
        ++C[C_enc_raw];
    }
    if (r.chance(1, 3)) { PDU::serialization_type s = tcp.serialize(); ExactBuf eb(s.data(), s.size()); out.reset(new TCP(eb.data(), (u32)s.size())); ++C[C_enc_reparse]; return out; }
    switch (r.below(4)) {
        case 0: out.reset(tcp.clone()); break;
        case 1: out.reset(new IP(IP("10.0.0.1", "10.0.0.2") / tcp)); break;
        case 2: out.reset(new EthernetII(EthernetII() / IP("10.0.0.1", "10.0.0.2") / tcp)); break;
        default: out.reset(new IPv6(IPv6(IPv6Address("2001:db8::1"), IPv6Address("2001:db8::2")) / tcp));
    }
    return out;
}

// ---- oracle ----------------------------------------------------------------------------------------
struct Ctx { const History* h; size_t step; const Pkt* p; const char* drv; bool failed; };
static void fail(Ctx& c, const std::string& key, const std::string& msg) {
    c.failed = true;
    violation(key, msg + " :: after packet #" + std::to_string(c.step) + " {" + show_pkt(*c.h, *c.p) + "} via " + c.drv + " of " + show(*c.h));
}
static std::string wrapdisc(const History& h) { return ((u64)h.isn + h.n + Model::M > 0xffffffffULL || h.isn < (u32)Model::M) ? "wrap" : "plain"; }

static bool query(Ctx& c, const Model& m, const AckTracker& t, long off, u32 len) {
    const History& h = *c.h;
    if (off < -Model::M) off = -Model::M;
    if (off > (long)h.n + Model::M) off = (long)h.n + Model::M;
    if (off + (long)len > (long)h.n + Model::M) len = (u32)((long)h.n + Model::M - off);
    u32 seq = h.isn + (u32)off; bool got = t.is_segment_acked(seq, len); bool exp = m.all(off, len);
    ++C[C_queries];
    bool wraps = len && (u32)(seq + len - 1) < seq;
    if (len == 0) ++C[C_q_len0];
    else if (exp) { if (off + (long)len <= (long)m.k) ++C[C_q_true_below]; else ++C[C_q_true_sack]; if (wraps) ++C[C_q_wrap_true]; }
    else { if (off < (long)m.k) ++C[C_q_false_straddle_ack]; else if (m.any(off, len)) ++C[C_q_false_hole]; else ++C[C_q_false_unacked]; if (wraps) ++C[C_q_wrap_false]; }
    if (off < 0) ++C[C_q_before_isn];
    if (got != exp) {
        long bad = -1; if (!exp) for (u32 i = 0; i < len; ++i) if (!m.bit[(size_t)(Model::M + off + i)]) { bad = off + i; break; }
        fail(c, std::string("is-segment-acked/") + (exp ? "false-negative" : "false-positive") + (wraps ? "/query-wraps" : "/query-plain"),
             "is_segment_acked(seq=" + std::to_string(seq) + " (off " + std::to_string(off) + "), len=" + std::to_string(len) + ") = " + (got ? "true" : "false") + ", model says " + (exp ? "true" : "false") +
             (bad >= 0 ? " (byte at off " + std::to_string(bad) + " is not acknowledged)" : "") + "; model ack off " + std::to_string(m.k) + ", ack_number()=" + std::to_string(t.ack_number()));
        return false;
    }
    return true;
}

static bool check(Ctx& c, const Model& m, const AckTracker& t, Rng& r) {
    const History& h = *c.h;
    // (1) cumulative ACK = highest contiguously acknowledged position
    ++C[C_chk_ack];
    if (t.ack_number() != (u32)(h.isn + m.k)) { fail(c, "ack-number/" + wrapdisc(h), "ack_number()=" + std::to_string(t.ack_number()) + " expected " + std::to_string((u32)(h.isn + m.k)) + " (off " + std::to_string(m.k) + ")"); return false; }
    // (2) acked_intervals() = exactly the acknowledged bytes above the ACK
    ++C[C_chk_iv];
    const AckTracker::interval_set_type& S = t.acked_intervals();
    std::vector<Blk> got; u64 total = 0;
    for (AckTracker::interval_set_type::const_iterator it = S.begin(); it != S.end(); ++it) {
        unsigned b = it->bounds().bits();             // boost::icl: bit 2 = left bound closed, bit 1 = right bound closed
        long long f = (long long)it->lower() + ((b & 2) ? 0 : 1), l = (long long)it->upper() - ((b & 1) ? 0 : 1);
        if (l < f) continue;                           // empty interval: contributes no byte
        u32 fo = (u32)f - h.isn, lo = (u32)l - h.isn;
        std::string iv = "[" + std::to_string(f) + "," + std::to_string(l) + "] (off " + std::to_string(fo) + ".." + std::to_string(lo) + ")";
        if (fo > lo || lo >= h.n) { fail(c, "sacked-intervals/outside-stream/" + wrapdisc(h), "acked_intervals() holds " + iv + " which is not inside the stream"); return false; }
        if (fo <= m.k) { fail(c, "sacked-intervals/at-or-below-ack/" + wrapdisc(h), "acked_intervals() holds " + iv + " reaching down to the cumulative ACK (off " + std::to_string(m.k) + ") or below"); return false; }
        if (!m.all(fo, lo - fo + 1)) { fail(c, "sacked-intervals/extra-bytes/" + wrapdisc(h), "acked_intervals() holds " + iv + " but not all of these bytes were SACKed"); return false; }
        got.push_back(Blk(fo, lo + 1)); total += (u64)lo - fo + 1;
    }
    std::sort(got.begin(), got.end());
    for (size_t i = 1; i < got.size(); ++i) if (got[i].first < got[i - 1].second) { fail(c, "sacked-intervals/overlapping/" + wrapdisc(h), "acked_intervals() holds overlapping intervals"); return false; }
    std::vector<Blk> runs = m.runs();
    if (total != m.nset - m.k) {
        std::string miss;
        for (auto& rn : runs) { u32 p = rn.first; for (auto& g : got) if (g.first <= p && p < g.second) p = g.second; if (p < rn.second) { miss = "off " + std::to_string(p) + " (seq " + std::to_string((u32)(h.isn + p)) + ")"; break; } }
        fail(c, "sacked-intervals/missing-bytes/" + wrapdisc(h), "acked_intervals() covers " + std::to_string(total) + " bytes, the SACKed bytes above the ACK are " + std::to_string(m.nset - m.k) + "; first missing " + miss);
        return false;
    }
    if (!got.empty()) ++C[C_iv_nonempty];
    if (got.size() >= 3) ++C[C_iv_many];
    cnt_max("max_intervals", got.size());
    long woff = (long)(int32_t)(0u - h.isn), hoff = (long)(int32_t)(0x80000000u - h.isn);
    for (auto& rn : runs) if ((long)rn.first < woff && woff < (long)rn.second) ++C[C_iv_split_wrap];
    // (3) is_segment_acked
    long n = (long)h.n; const long M = Model::M;
    if (h.n <= 16) {                                  // every (seq,len) around a small stream
        for (long off = -3; off <= n + 3; ++off) for (long len = 0; off + len <= n + 4; ++len) if (!query(c, m, t, off, (u32)len)) return false;
        return true;
    }
    std::vector<long> E; E.push_back(0); E.push_back((long)m.k); E.push_back(n);
    if (woff > -M && woff < n + M) E.push_back(woff);
    if (hoff > -M && hoff < n + M) E.push_back(hoff);
    if (c.p->arrival >= 0) { int s = h.order[(size_t)c.p->arrival]; E.push_back((long)h.bnd[s]); E.push_back((long)h.bnd[s + 1]); }
    { size_t R = runs.size(); for (size_t i = 0; i < R; ++i) if (i < 3 || i + 2 >= R || r.chance(1, 8)) { E.push_back((long)runs[i].first); E.push_back((long)runs[i].second); } }
    for (auto& b : c.p->blocks) { E.push_back((long)b.first); E.push_back((long)b.second); }
    std::vector<long> P;
    for (long e : E) for (long d = -1; d <= 1; ++d) { long p = e + d; if (p >= -M && p <= n + M) P.push_back(p); }
    std::sort(P.begin(), P.end()); P.erase(std::unique(P.begin(), P.end()), P.end());
    size_t np = P.size(); u64 pairs = (u64)np * (np + 1) / 2;
    if (pairs <= 136) { for (size_t i = 0; i < np; ++i) for (size_t j = i; j < np; ++j) if (!query(c, m, t, P[i], (u32)(P[j] - P[i]))) return false; }
    else for (int q = 0; q < 110; ++q) { size_t i = r.below((u32)np), j = r.below((u32)np); if (i > j) std::swap(i, j); if (!query(c, m, t, P[i], (u32)(P[j] - P[i]))) return false; }
    for (auto& rn : runs) {                           // exactly a SACKed run, and one byte more on either side
        if (runs.size() > 6 && !r.chance(6, (u32)runs.size())) continue;
        ++C[C_q_exact_run]; if (!query(c, m, t, rn.first, rn.second - rn.first)) return false;
        C[C_q_run_plus1] += 2; if (!query(c, m, t, (long)rn.first - 1, rn.second - rn.first + 1)) return false; if (!query(c, m, t, rn.first, rn.second - rn.first + 1)) return false;
    }
    size_t S_ = h.order.size();                      // segment boundaries +-1
    auto seg_q = [&](size_t s) { for (long d1 = -1; d1 <= 1; ++d1) for (long d2 = -1; d2 <= 1; ++d2) { long a = (long)h.bnd[s] + d1, b = (long)h.bnd[s + 1] + d2; if (b >= a && !query(c, m, t, a, (u32)(b - a))) return false; } return true; };
    if (S_ <= 16) { for (size_t s = 0; s < S_; ++s) if (!seg_q(s)) return false; }
    else for (int q = 0; q < 8; ++q) if (!seg_q(r.below((u32)S_))) return false;
    for (int q = 0; q < 12; ++q) {                   // random (seq,len)
        long off = (long)r.below((u32)(n + 2 * M)) - M; u32 len;
        switch (r.below(4)) { case 0: len = r.below(4); break; case 1: len = r.below((u32)(n + M - off) + 1); break; default: len = r.below(1 + (u32)std::min<long>(n + M - off, 1 + (long)(n / 4))); }
        if (!query(c, m, t, off, len)) return false;
    }
    return true;
}

// classify what this packet makes the engine do (from the model's point of view, before applying it)
static void classify(const History& h, const Pkt& p, const Model& m, bool sack_on) {
    long woff = (long)(int32_t)(0u - h.isn), hoff = (long)(int32_t)(0x80000000u - h.isn);
    if (p.ack > m.k) {
        ++C[C_br_ack_adv];
        bool below = false, above = false, erased = false;
        if (m.nset > m.k) { for (auto& rn : m.runs()) { if ((long)rn.first < woff) below = true; if ((long)rn.second > woff) above = true; if (rn.first < p.ack) erased = true; } }
        if (erased) ++C[C_br_ack_over_sacked];
        if ((long)m.k < woff && woff <= (long)p.ack) { ++C[C_br_ack_wrap]; if (below && !above) ++C[C_br_ack_wrap_before_only]; if (below && above) ++C[C_br_ack_wrap_both]; }
        if ((long)m.k < hoff && hoff <= (long)p.ack) ++C[C_br_ack_half];
        if ((u32)(h.isn + p.ack) == 0) ++C[C_br_ack_to_zero];
        if ((u32)(h.isn + p.ack) == 0xffffffffu) ++C[C_br_ack_to_max];
    } else ++C[C_br_ack_same];
    ++C[C_b0 + std::min<size_t>(p.blocks.size(), 4)];
    if (!sack_on) return;
    for (size_t i = 0; i < p.blocks.size(); ++i) {
        const Blk& b = p.blocks[i];
        if ((long)b.first < woff && woff < (long)b.second) ++C[C_br_blk_wrap];
        if ((long)b.second == woff) ++C[C_br_blk_end0];
        if ((long)b.first == woff) ++C[C_br_blk_start0];
        if ((long)b.first < hoff && hoff < (long)b.second) ++C[C_br_blk_half];
        if (b.first == p.ack + 1) ++C[C_br_blk_at_ack1];
        for (size_t j = 0; j < p.blocks.size(); ++j) if (j != i && p.blocks[j].first == b.second) ++C[C_br_blk_adjacent];
        if (m.all(b.first, b.second - b.first)) ++C[C_br_blk_old]; else { ++C[C_br_blk_new]; if ((b.first > 0 && m.bit[Model::M + b.first - 1] && b.first - 1 > m.k) || m.bit[Model::M + b.second]) ++C[C_br_blk_joins]; }
    }
}

static void run_history(History& h, Rng& r) {
    bool flow = h.ctor == 4; const char* drv = flow ? "Flow" : "AckTracker";
    std::unique_ptr<AckTracker> own; std::unique_ptr<Flow> fl;
    if (flow) {
        fl.reset(new Flow(IPv4Address("10.0.0.2"), 80, 12345)); fl->enable_ack_tracking();
        TCP syn(80, 40000); syn.flags(TCP::SYN | TCP::ACK); syn.seq(12344); syn.ack_seq(h.isn);
        IP pkt = IP("10.0.0.1", "10.0.0.2") / syn; fl->process_packet(pkt);
        ++C[C_drv_flow];
    } else {
        switch (h.ctor) { case 0: own.reset(new AckTracker(h.isn)); break; case 1: own.reset(new AckTracker(h.isn, true)); break; case 2: own.reset(new AckTracker(h.isn, false)); break; default: own.reset(new AckTracker()); }
        // the tracker is a value type (Flow assigns a freshly built one on the handshake): half of the histories run on one that was copied or moved into place
        switch (r.below(8)) { case 0: { AckTracker t2(*own); own.reset(new AckTracker(t2)); cnt("tracker:copy-constructed"); break; }
            case 1: { std::unique_ptr<AckTracker> t2(new AckTracker()); *t2 = *own; own = std::move(t2); cnt("tracker:copy-assigned"); break; }
            case 2: { std::unique_ptr<AckTracker> t2(new AckTracker(7, false)); *t2 = AckTracker(*own); own = std::move(t2); cnt("tracker:move-assigned"); break; }
            case 3: { AckTracker t2(*own); own.reset(new AckTracker(std::move(t2))); cnt("tracker:move-constructed"); break; }
            default: break; }
        ++C[C_drv_direct]; if (h.ctor >= 2) ++C[C_drv_nosack];
    }
    if ((u64)h.isn + h.n > 0xffffffffULL) ++C[C_h_wrap];
    Model m(h.n); size_t processed = 0; bool sack_on = h.ctor < 2 || flow; bool lossy = false;
    // the initial state is checked too
    { Pkt p0; p0.ack = 0; p0.arrival = -1; Ctx c{&h, 0, &p0, drv, false}; const AckTracker& t = flow ? fl->ack_tracker() : *own; if (!check(c, m, t, r)) return; }
    for (size_t i = 0; i < h.pkts.size(); ++i) {
        const Pkt& p = h.pkts[i];
        if (!p.delivered) { ++C[C_packets_lost]; lossy = true; continue; }
        if (!flow && h.ctor >= 2 && !sack_on && (int)processed >= h.sack_at) { own->use_sack(); sack_on = true; }
        classify(h, p, m, sack_on);
        std::unique_ptr<PDU> pdu = encode(h, p, r);
        if (flow) fl->process_packet(*pdu); else own->process_packet(*pdu);
        ++processed; ++C[C_packets_processed];
        m.add(0, p.ack); if (sack_on) for (auto& b : p.blocks) m.add(b.first, b.second);
        m.settle();
        Ctx c{&h, i + 1, &p, drv, false};
        if (m.k != p.ack) { /* cannot happen for a truthful receiver: the byte at the ACK is never SACKed */ fail(c, "harness/model-prefix-differs-from-ack", "model prefix " + std::to_string(m.k) + " vs packet ack " + std::to_string(p.ack)); return; }
        const AckTracker& t = flow ? fl->ack_tracker() : *own;
        if (!check(c, m, t, r)) return;
    }
    if (lossy) ++C[C_h_lossy];
}

// ---- generators ------------------------------------------------------------------------------------
static u32 pick_isn(Rng& r, const History& h) {
    u32 n = h.n; size_t S = h.bnd.size() - 1;
    switch (r.below(16)) {
        case 0: return 0; case 1: return 1; case 2: return 0x7fffffffu; case 3: return 0x80000000u; case 4: return 0xffffffffu;
        case 5: return 0u - (n / 2); case 6: return 0u - n; case 7: return 0u - h.bnd[r.below((u32)S + 1)];                 // wrap on a segment boundary
        case 8: { size_t s = r.below((u32)S); return 0u - (h.bnd[s] + r.below(h.bnd[s + 1] - h.bnd[s])); }                 // wrap inside a segment
        case 9: return 0x80000000u - (n / 2); case 10: return 0u - h.bnd[r.below((u32)S + 1)] - 1; case 11: return 0u - h.bnd[r.below((u32)S + 1)] + 1;
        case 12: return 0u - (1 + r.below(n));
        default: return (u32)r.next();
    }
}
static History gen_random(Rng& r, bool thorough) {
    History h; u32 n;
    switch (r.below(10)) { case 0: n = 17 + r.below(48); break; case 1: n = 1 + r.below(thorough ? 65536 : 24000); break; case 2: n = 1 + r.below(65536); if (!thorough && !r.chance(1, 4)) n = 1 + n % 4096; break; default: n = 1 + r.below(4096); }
    h.n = n;
    u32 mss = r.chance(1, 4) ? 1 + r.below(4) : r.chance(1, 3) ? 1 + r.below(64) : 1 + r.below(1460);
    u32 maxseg = thorough ? 300 : 120;
    if (n / mss > maxseg / 2) mss = n / (maxseg / 2) + 1;
    u32 p1 = r.below(4) == 0 ? 3 : 12;              // share of one-byte segments
    h.bnd.push_back(0);
    for (u32 o = 0; o < n;) { u32 l = r.chance(1, p1) ? 1 : 1 + r.below(mss); if (o + l > n) l = n - o; o += l; h.bnd.push_back(o); }
    size_t S = h.bnd.size() - 1;
    // arrival order: position + noise (tunable locality), full shuffle, in order, reversed, or "first segment late"
    u32 style = r.below(6); std::vector<std::pair<double, int>> keyed;
    double noise = style == 0 ? 0.0 : style == 1 ? 1e12 : (double)(1 + r.below(n * 2 + 1));
    for (size_t i = 0; i < S; ++i) keyed.push_back({(double)h.bnd[i] + noise * ((double)(r.next() >> 11) / 9007199254740992.0), (int)i});
    if (style == 4) for (auto& kv : keyed) kv.first = -kv.first;
    if (style == 5) { size_t holes = 1 + r.below(3); for (size_t q = 0; q < holes; ++q) keyed[r.below((u32)S)].first += (double)n * (0.3 + (double)r.below(100) / 50.0); }
    std::stable_sort(keyed.begin(), keyed.end());
    for (auto& kv : keyed) h.order.push_back(kv.second);
    h.isn = pick_isn(r, h);
    static const u32 lp[][2] = {{0, 1}, {0, 1}, {1, 10}, {1, 3}, {2, 3}, {9, 10}};
    u32 li = r.below(6); h.lnum = lp[li][0]; h.lden = lp[li][1];
    h.maxb = r.chance(1, 2) ? 4 : r.chance(1, 2) ? 3 : (int)r.below(3); h.vary = r.chance(1, 5);
    h.coalesce = r.chance(3, 5) ? 0 : 1 + (int)r.below(2); h.dup_den = r.chance(1, 4) ? 6 : 0;
    // directed shapes
    u32 dir = r.below(12);
    if (dir == 0 && S >= 4) {
        // the cumulative ACK jumps across 2^32 while the tracker only knows SACKed data before the wrap:
        // segment 0 is late, 1..j arrive (ACKs delivered), j+1..m arrive (ACKs lost), then 0 (delivered)
        size_t j = 1 + r.below((u32)S - 3), mm = j + 1 + r.below((u32)(S - 2 - j)); if (mm > S - 1) mm = S - 1;
        u32 lo = h.bnd[j + 1], hi = h.bnd[mm + 1];
        h.isn = 0u - (lo + (r.chance(1, 3) ? 0 : r.chance(1, 2) ? hi - lo : 1 + r.below(hi - lo)));
        std::vector<int> a, b, c2; for (size_t i = 1; i <= j; ++i) a.push_back((int)i); for (size_t i = j + 1; i <= mm; ++i) b.push_back((int)i); for (size_t i = mm + 1; i < S; ++i) c2.push_back((int)i);
        auto shuf = [&](std::vector<int>& v) { for (size_t i = v.size(); i > 1; --i) std::swap(v[i - 1], v[r.below((u32)i)]); };
        if (r.chance(1, 2)) shuf(a); if (r.chance(1, 2)) shuf(b); shuf(c2);
        h.order.clear(); h.forced.clear();
        for (int x : a) { h.order.push_back(x); h.forced.push_back(1); } for (int x : b) { h.order.push_back(x); h.forced.push_back(0); }
        h.order.push_back(0); h.forced.push_back(1); for (int x : c2) { h.order.push_back(x); h.forced.push_back(!r.chance(1, 4)); }
        h.dup_den = 0; if (h.maxb == 0) h.maxb = 4; h.tag = "directed=ack-across-wrap"; ++C[C_h_directed_wrap];
    } else if (dir == 1 && S >= 3) {
        // a one-byte hole exactly at the ACK point with a SACK block starting at ack+1, placed at/around the wrap
        size_t i = 1 + r.below((u32)S - 2);
        if (h.bnd[i + 1] - h.bnd[i] > 1) { u32 cut = h.bnd[i] + 1; h.bnd.insert(h.bnd.begin() + i + 1, cut); ++S; }
        std::vector<int> rest; for (size_t s = i + 1; s < S; ++s) rest.push_back((int)s);
        for (size_t q = rest.size(); q > 1; --q) if (r.chance(1, 2)) std::swap(rest[q - 1], rest[r.below((u32)q)]);
        h.order.clear(); h.forced.clear(); for (size_t s = 0; s < i; ++s) h.order.push_back((int)s);
        size_t at = r.below((u32)rest.size() + 1); if (at == 0) at = rest.size();
        for (size_t q = 0; q < rest.size(); ++q) { if (q == at) h.order.push_back((int)i); h.order.push_back(rest[q]); } if (at >= rest.size()) h.order.push_back((int)i);
        switch (r.below(6)) { case 0: h.isn = 0u - h.bnd[i]; break; case 1: h.isn = 0u - h.bnd[i] - 1; break; case 2: h.isn = 0u - h.bnd[i] + 1; break; case 3: h.isn = 0x80000000u - h.bnd[i]; break; default: break; }
        if (h.maxb == 0) h.maxb = 3; h.tag = "directed=one-byte-hole-at-ack"; ++C[C_h_directed_hole];
    }
    u32 cm = r.below(16);
    h.ctor = cm < 5 ? 0 : cm < 8 ? 1 : cm < 9 ? 2 : cm < 10 ? (h.isn == 0 ? 3 : 2) : cm < 11 ? 1 : cm < 14 ? 4 : 0;
    h.sack_at = (int)r.below((u32)S + 2);
    simulate(h, r);
    return h;
}

// ---- exhaustive small scope -------------------------------------------------------------------------
static const u32 exh_lens[8] = {1, 2, 1, 3, 1, 2, 1, 2};
static void run_exhaustive(long idx, int nseg, Rng& r) {
    std::vector<int> pool, perm; for (int i = 0; i < nseg; ++i) pool.push_back(i);
    long f = 1; for (int i = 2; i <= nseg; ++i) f *= i; long rem = idx % f;
    for (int i = nseg; i >= 1; --i) { f /= i; long q = rem / f; rem %= f; perm.push_back(pool[(size_t)q]); pool.erase(pool.begin() + q); }
    History base; base.bnd.push_back(0); for (int i = 0; i < nseg; ++i) base.bnd.push_back(base.bnd.back() + exh_lens[i]); base.n = base.bnd.back(); base.order = perm;
    std::string d = "exhaustive segs=" + std::to_string(nseg) + " order="; for (int x : perm) d += std::to_string(x) + ","; describe_case(d);
    // ISNs: no wrap, 2^31 inside the stream, 2^32 inside segment 3 (inside a SACK block), 2^32 on the boundary after the one-byte segment 2
    const u32 isns[4] = {0, 0x80000000u - 5, 0u - 5, 0u - 4};
    u64 hist = 0;
    for (u32 isn : isns) {
        auto one = [&](const std::vector<char>& forced, int maxb, int coalesce, int ctor) {
            History h = base; h.isn = isn; h.forced = forced; h.maxb = maxb; h.coalesce = coalesce; h.ctor = ctor; h.sack_at = 0;
            simulate(h, r); run_history(h, r); ++hist;
            u64 sg = mix(isn, (u64)maxb * 16 + coalesce * 4 + ctor); for (int x : perm) sg = mix(sg, (u64)x); for (char c : forced) sg = mix(sg, (u64)c); sig(sg);
        };
        std::vector<char> all(nseg, 1);
        one(all, 4, 0, 0);
        if (nseg <= 6) {
            for (u32 mask = 0; mask + 1 < (1u << nseg); ++mask) { std::vector<char> fz(nseg); for (int b = 0; b < nseg; ++b) fz[b] = (mask >> b) & 1; one(fz, 4, 0, 0); }
            for (int mb = 1; mb <= 3; ++mb) one(all, mb, 0, 0);
            one(all, 4, 1, 0);
            { std::vector<char> fz(nseg); for (int b = 0; b < nseg; ++b) fz[b] = r.chance(1, 2); one(fz, 1 + (int)r.below(4), (int)r.below(3), 4); }
        } else {
            one(all, 4, 1, 0);                          // non-coalescing receiver: adjacent blocks
            one(all, 2, 0, 0);
            for (int q = 0; q < 3; ++q) { std::vector<char> fz(nseg); for (int b = 0; b < nseg; ++b) fz[b] = r.chance(1, 2); one(fz, 1 + (int)r.below(4), (int)r.below(3), q == 2 ? 4 : 0); }
        }
    }
    cnt("exhaustive_orders"); cnt("exhaustive_histories", hist);
}

// AckedRange, used directly: [first,last] (closed, may wrap) must be split into at most two non-wrapping closed intervals that cover exactly
// the same sequence numbers, in order, and first()/last() must be what was given
static void check_acked_range(Rng& r) {
    for (int k = 0; k < 8; ++k) {
        u32 first = (u32)r.edgy(32), len = r.chance(1, 2) ? r.below(70000) : (u32)r.edgy(31); u32 last = first + len;
        TCPIP::AckedRange ar(first, last);
        if (ar.first() != first || ar.last() != last) { violation("acked-range/first-last", "AckedRange(" + std::to_string(first) + "," + std::to_string(last) + ") reports first()=" + std::to_string(ar.first()) + " last()=" + std::to_string(ar.last())); return; }
        u64 covered = 0; u32 expect_next = first; int parts = 0;
        while (ar.has_next() && parts < 4) { auto iv = ar.next(); ++parts;
            u32 lo = iv.lower(), hi = iv.upper();
            if (iv.bounds() != boost::icl::interval_bounds::closed() || lo > hi || lo != expect_next) { violation("acked-range/interval", "AckedRange(" + std::to_string(first) + "," + std::to_string(last) + ") part " + std::to_string(parts) + " is [" + std::to_string(lo) + "," + std::to_string(hi) + "], expected to start at " + std::to_string(expect_next)); return; }
            covered += (u64)hi - lo + 1; expect_next = hi + 1;
            if (hi == last) break; }
        if (covered != (u64)len + 1 || parts > 2) { violation("acked-range/coverage", "AckedRange(" + std::to_string(first) + "," + std::to_string(last) + ") yields " + std::to_string(parts) + " intervals covering " + std::to_string(covered) + " numbers instead of " + std::to_string((u64)len + 1)); return; }
        cnt(parts == 2 ? "acked_range:wrapping" : "acked_range:plain");
    }
}

int main(int argc, char** argv) {
    return vf::run(argc, argv, "C19", [&](long idx, Rng& rng) {
        const Args& a = st().a; bool thorough = a.tier == "thorough";
        if (a.mode == "exhaustive") { run_exhaustive(idx, (int)a.geti("segs", thorough ? 8 : 6), rng); flush_ctrs(); return; }
        check_acked_range(rng);
        History h = gen_random(rng, thorough);
        describe_case(show(h));
        u64 sg = mix(h.isn, h.n); for (u32 b : h.bnd) sg = mix(sg, b); for (int o : h.order) sg = mix(sg, (u64)o); for (auto& p : h.pkts) sg = mix(sg, p.delivered); sig(sg);
        run_history(h, rng);
        if (want_sample() && h.order.size() <= 10 && h.order.size() >= 4) { std::string s = show(h) + " packets:"; for (auto& p : h.pkts) s += std::string(p.delivered ? " {" : " lost{") + show_pkt(h, p) + "}"; sample(s); }
        flush_ctrs();
    });
}
