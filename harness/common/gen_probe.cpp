// Compile-only probe: instantiates every generated table so that lines the compiler
// rejects can be dropped by build_lib.gen_with_probe().
#include "view_put.h"
#include "view_impl.cpp"
using namespace Tins;
namespace {
template <class T> void use_entry(const uint8_t* b, uint32_t n) { T t(b, n); (void)t; }
#define VF_ENTRY(Q, TAG, ISPDU, FN) void entry_##TAG(const uint8_t* b, uint32_t n) { Q o(b, n); vf::View v; vf::FN(o, v); }
#define VF_GEN_ENTRIES
#include "gen_tins.inc"
#undef VF_GEN_ENTRIES
#define VF_PDU_CLASS(Q, N, CONCRETE, DEFCTOR, BUFCTOR) void cls_##N() { if (DEFCTOR && CONCRETE) { vf_make<Q, (DEFCTOR && CONCRETE)>(); } }
template <class T, int ok> struct Mk { static void go() { T t; (void)t.pdu_type(); (void)T::pdu_flag; } };
template <class T> struct Mk<T, 0> { static void go() {} };
template <class T, int ok> void vf_make() { Mk<T, ok>::go(); }
#define VF_GEN_CLASSES
#include "gen_tins.inc"
#undef VF_GEN_CLASSES
template <class C, class A> A vf_setter_arg(void (C::*)(A));
#define VF_FIELD(Q, N, F, OWNER) void field_##N##_##F(Q& o) { typedef typename std::decay<decltype(vf_setter_arg(&OWNER::F))>::type A; auto v = o.F(); (void)v; A* a = 0; (void)a; }
#define VF_GEN_FIELDS
#include "gen_tins.inc"
#undef VF_GEN_FIELDS
#define VF_UFIELD(Q, N, F, OWNER, ON) void ufield_##N##_##ON##_##F(Q& o) { typedef typename std::decay<decltype(vf_setter_arg(&OWNER::F))>::type A; auto v = o.F(); (void)v; A* a = 0; (void)a; Q x; (void)x; }
#define VF_GEN_UFIELDS
#include "gen_tins.inc"
#undef VF_GEN_UFIELDS
}
int main() { return 0; }
