// Shared by C01/C02/C03/C17: the from-buffer entry points of the current headers (generated table + capture-level
// dispatch), the seed corpus, structure-aware mutation and API-generated packets.
#pragma once
#include "view.h"
#include "pktgen.h"
#include <tins/detail/pdu_helpers.h>
#include <fstream>
namespace vf {
using namespace Tins;
struct Entry {
    std::string name; bool ispdu;
    std::function<PDU*(const u8*, u32)> parse;                 // PDU entries
    std::function<void(const u8*, u32, View&)> parse_other;    // non-PDU decoders: construct + describe
    std::function<bool(const PDU*)> is_class;
    bool can_reject = true;
};
static std::vector<Entry> entries;
struct Seed { std::string tag; Bytes b; };
static std::vector<Seed> seeds;

template <class Q> static void reg_pdu(const char* tag) {
    Entry e; e.name = tag; e.ispdu = true;
    e.parse = [](const u8* b, u32 n) -> PDU* { return new Q(b, n); };
    e.is_class = [](const PDU* p) { return typeid(*p) == typeid(Q); };
    entries.push_back(e);
}
template <class Q, class F> static void reg_other(const char* tag, F describe_fn) {
    Entry e; e.name = tag; e.ispdu = false;
    e.parse_other = [describe_fn](const u8* b, u32 n, View& v) { Q o(b, n); describe_fn(o, v); };
    e.is_class = [](const PDU*) { return false; };
    entries.push_back(e);
}
template <class Q, int ISPDU> struct Reg { template <class F> static void go(const char* tag, F) { reg_pdu<Q>(tag); } };
template <class Q> struct Reg<Q, 0> { template <class F> static void go(const char* tag, F f) { reg_other<Q>(tag, f); } };

static void register_all() {
#define VF_ENTRY(Q, TAG, ISPDU, FN) Reg<Q, ISPDU>::go(#TAG, [](const Q& o, View& v) { vf::FN(o, v); });
#define VF_GEN_ENTRIES
#include "gen_tins.inc"
#undef VF_GEN_ENTRIES
#undef VF_ENTRY
    for (auto& e : entries) if (e.name == "RawPDU") e.can_reject = false;
    // capture-level dispatch exactly as BaseSniffer::next_packet does it
    { Entry e; e.name = "cap:EN10MB"; e.ispdu = true; e.parse = [](const u8* b, u32 n) -> PDU* { if (Internals::is_dot3(b, n)) return new Dot3(b, n); return new EthernetII(b, n); };
      e.is_class = [](const PDU* p) { return typeid(*p) == typeid(EthernetII) || typeid(*p) == typeid(Dot3); }; entries.push_back(e); }
    { Entry e; e.name = "cap:RAW"; e.ispdu = true; e.parse = [](const u8* b, u32 n) -> PDU* { if (n == 0) throw malformed_packet(); switch (b[0] >> 4) { case 4: return new IP(b, n); case 6: return new IPv6(b, n); } throw malformed_packet(); };
      e.is_class = [](const PDU* p) { return typeid(*p) == typeid(IP) || typeid(*p) == typeid(IPv6); }; entries.push_back(e); }
    { Entry e; e.name = "Dot11::from_bytes"; e.ispdu = true; e.parse = [](const u8* b, u32 n) -> PDU* { return Dot11::from_bytes(b, n); }; e.is_class = [](const PDU* p) { return dynamic_cast<const Dot11*>(p) != nullptr; }; entries.push_back(e); }
    { Entry e; e.name = "EAPOL::from_bytes"; e.ispdu = true; e.parse = [](const u8* b, u32 n) -> PDU* { return EAPOL::from_bytes(b, n); }; e.is_class = [](const PDU* p) { return dynamic_cast<const EAPOL*>(p) != nullptr; }; entries.push_back(e); }
    { Entry e; e.name = "BootP"; e.ispdu = true; e.parse = [](const u8* b, u32 n) -> PDU* { return new BootP(b, n, n > 236 ? (n - 236) % 65 : 0); }; e.is_class = [](const PDU* p) { return typeid(*p) == typeid(BootP); }; entries.push_back(e); }
    { Entry e; e.name = "RawPDU::to<IP>"; e.ispdu = true; e.parse = [](const u8* b, u32 n) -> PDU* { RawPDU r(b, n); return new IP(r.to<IP>()); }; e.is_class = [](const PDU* p) { return typeid(*p) == typeid(IP); }; entries.push_back(e); }
    { Entry e; e.name = "RawPDU::to<DNS>"; e.ispdu = true; e.parse = [](const u8* b, u32 n) -> PDU* { RawPDU r(b, n); return new DNS(r.to<DNS>()); }; e.is_class = [](const PDU* p) { return typeid(*p) == typeid(DNS); }; entries.push_back(e); }
}

static void load_seeds(const std::string& path) {
    std::ifstream f(path); std::string tag, hx;
    while (f >> tag >> hx) seeds.push_back({tag, unhex(hx)});
}

static Bytes mutate(const Bytes& s, Rng& r) {
    Bytes b = s; u32 rounds = 1 + r.below(3);
    for (u32 k = 0; k < rounds; ++k) {
        if (b.empty()) { b = r.bytes(1 + r.below(8)); continue; }
        u32 pos = r.chance(1, 2) ? r.below((u32)std::min<size_t>(b.size(), 64)) : r.below((u32)b.size());
        switch (r.below(11)) {
            case 0: b[pos] ^= (u8)(1u << r.below(8)); break;
            case 1: { static const u8 sp[] = {0, 1, 0x7f, 0x80, 0xff, 0x40, 0xc0, 0x0f, 0xf0}; b[pos] = sp[r.below(9)]; break; }
            case 2: { // treat a 1/2/4 byte window as a length/offset/count field
                u32 w = 1u << r.below(3); if (pos + w > b.size()) w = 1; u64 cur = 0; for (u32 i = 0; i < w; ++i) cur = (cur << 8) | b[pos + i];
                u64 rem = b.size() - pos; u64 cand[] = {0, 1, cur - 1, cur + 1, rem, rem - 1, rem + 1, ~0ULL, rem / 4, rem / 8, (u64)b.size()}; u64 v = cand[r.below(11)];
                if (r.chance(1, 3)) for (u32 i = 0; i < w; ++i) b[pos + i] = (u8)(v >> (8 * i)); else for (u32 i = 0; i < w; ++i) b[pos + w - 1 - i] = (u8)(v >> (8 * i)); break; }
            case 3: { const Bytes& o = seeds[r.below((u32)seeds.size())].b; u32 cut = r.below((u32)o.size() + 1); b.resize(pos); b.insert(b.end(), o.begin() + cut, o.end()); break; }
            case 4: { u32 w = 1 + r.below(16); if (pos + w > b.size()) w = (u32)b.size() - pos; Bytes win(b.begin() + pos, b.begin() + pos + w); b.insert(b.begin() + pos, win.begin(), win.end()); break; }
            case 5: { u32 w = 1 + r.below(16); if (pos + w > b.size()) w = (u32)b.size() - pos; b.erase(b.begin() + pos, b.begin() + pos + w); break; }
            case 6: { Bytes t = r.bytes(1 + r.below(40)); b.insert(b.end(), t.begin(), t.end()); break; }
            case 7: b.resize(pos); break;
            case 8: b[pos] = r.byte(); break;
            case 9: { if (r.chance(1, 2)) { u32 w = 1 + r.below(8); for (u32 i = 0; i < w && pos + i < b.size(); ++i) b[pos + i] = r.chance(1, 2) ? 0xff : 0; break; }
                // a DNS-style 14-bit compression pointer designating the end of the buffer and its neighbourhood (also relative to a 12/20/28/42-byte prefix)
                if (pos + 1 < b.size()) { static const int hdr[] = {0, 12, 8 + 12, 20 + 8 + 12, 14 + 20 + 8 + 12, 40 + 8 + 12}; long base = (long)b.size() - hdr[r.below(6)]; long tgt = base + (long)r.below(5) - 2; if (tgt < 0) tgt = 0; b[pos] = (u8)(0xc0 | ((tgt >> 8) & 0x3f)); b[pos + 1] = (u8)tgt; } break; }
            default: { u32 w = 1 + r.below(8); for (u32 i = 0; i < w && pos + i < b.size(); ++i) b[pos + i] = r.chance(1, 2) ? 0xff : 0; }
        }
        if (b.size() > 65535) b.resize(65535);
    }
    return b;
}
static const Bytes& accepted_seed_for(const Entry& e, Rng& r) {
    for (int t = 0; t < 6; ++t) { const Seed& s = seeds[r.below((u32)seeds.size())]; try { ExactBuf buf(s.b); if (e.ispdu) { PDU* p = e.parse(buf.data(), (u32)s.b.size()); delete p; } else { View v; v.strict_exceptions = false; e.parse_other(buf.data(), (u32)s.b.size(), v); } return s.b; } catch (...) {} }
    return seeds[r.below((u32)seeds.size())].b;
}
static Bytes generated_for(const Entry& e, Rng& r, std::string* trace) {
    std::unique_ptr<PDU> p;
    for (int attempt = 0; attempt < 12; ++attempt) {
        PktGen g(r); p.reset(g.packet()); if (trace) *trace = g.trace;
        for (PDU* q = p.get(); q; q = q->inner_pdu()) if (e.is_class(q) && (q == p.get() || r.chance(3, 4))) { try { return q->serialize(); } catch (...) { break; } }
    }
    try { return p->serialize(); } catch (...) { return Bytes(); }
}


} // namespace vf
