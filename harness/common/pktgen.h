// Seeded generator of packets built through the public API: random layer stacks, boundary-heavy
// field values, option / extension / tag lists. Used as a source of diverse well-formed packets
// (C01 seeds, C02, C03, C12, C17, C18). It keeps no shadow: checks that need one build their own.
#pragma once
#include "verif.h"
#include <tins/tins.h>
#include <tins/pktap.h>
#include <tins/loopback.h>
#include <memory>

namespace vf {
using namespace Tins;

struct PktGen {
    Rng& r; std::string trace;   // textual record of what was built
    bool avoid_known = true;     // steer away from shapes of listed known findings
    explicit PktGen(Rng& rng) : r(rng) {}
    void note(const std::string& s) { if (trace.size() < 3000) { trace += s; trace += ' '; } }

    IPv4Address ip4() { static const char* k[] = {"1.2.3.4", "10.0.0.1", "192.168.1.254", "255.255.255.255", "224.0.0.1", "127.0.0.1", "0.0.0.1", "128.0.0.0"}; if (r.chance(1, 2)) return IPv4Address(k[r.below(8)]); uint32_t v = (uint32_t)r.next(); if (!v) v = 1; return IPv4Address(v); }
    IPv6Address ip6() { IPv6Address a; uint8_t b[16]; uint32_t m = r.below(5); for (int i = 0; i < 16; ++i) b[i] = m == 0 ? 0 : m == 1 ? 0xff : r.byte(); if (m == 2) { memset(b, 0, 16); b[15] = 1; } if (m == 3) { b[0] = 0xfe; b[1] = 0x80; } return IPv6Address(b); }
    HWAddress<6> mac() { uint8_t b[6]; uint32_t m = r.below(4); for (int i = 0; i < 6; ++i) b[i] = m == 0 ? 0xff : m == 1 ? 0 : r.byte(); if (m == 2) b[0] &= 0xfe; return HWAddress<6>(b); }
    Bytes blob(u32 maxn) { u32 n; switch (r.below(8)) { case 0: n = 0; break; case 1: n = 1; break; case 2: n = 8; break; case 3: n = 9; break; case 4: n = maxn; break; default: n = r.below(maxn + 1); } return r.bytes(n); }
    std::string label(u32 maxn) { u32 n = 1 + r.below(maxn); std::string s; for (u32 i = 0; i < n; ++i) s += (char)('a' + r.below(26)); return s; }
    std::string dname() { std::string s; u32 n = 1 + r.below(5); for (u32 i = 0; i < n; ++i) { if (i) s += '.'; s += label(r.chance(1, 6) ? 63 : 10); } return s; }

    // ---- payload / application layers -----------------------------------------------------------
    PDU* raw() { u32 n; switch (r.below(10)) { case 0: n = 1; break; case 1: n = 46; break; case 2: n = 45; break; case 3: n = 128; break; case 4: n = 1400 + r.below(200); break; case 5: n = 3; break; default: n = 1 + r.below(64); } Bytes b = r.bytes(n); note("Raw(" + std::to_string(n) + ")"); return new RawPDU(b.data(), (u32)b.size()); }

    PDU* dns() {
        DNS* d = new DNS(); d->id((u16)r.edgy(16)); d->type(r.chance(1, 2) ? DNS::QUERY : DNS::RESPONSE); d->opcode((u8)r.below(16)); d->rcode((u8)r.below(16));
        d->recursion_desired(r.below(2)); d->recursion_available(r.below(2)); d->authoritative_answer(r.below(2)); d->truncated(r.below(2)); d->z(r.below(2)); d->authenticated_data(r.below(2)); d->checking_disabled(r.below(2));
        u32 nq = r.below(3), na = r.below(4), nau = r.below(3), nad = r.below(3);
        for (u32 i = 0; i < nq; ++i) d->add_query(DNS::query(dname(), (DNS::QueryType)(r.chance(3, 4) ? DNS::A : r.below(40)), DNS::INTERNET));
        auto rec = [&]() { u32 t = r.below(6); std::string n = dname(); u32 ttl = (u32)r.edgy(32);
            switch (t) { case 0: return DNS::resource(n, ip4().to_string(), DNS::A, DNS::INTERNET, ttl); case 1: return DNS::resource(n, ip6().to_string(), DNS::AAAA, DNS::INTERNET, ttl);
                case 2: return DNS::resource(n, dname(), DNS::CNAME, DNS::INTERNET, ttl); case 3: return DNS::resource(n, dname(), DNS::NS, DNS::INTERNET, ttl);
                case 4: return DNS::resource(n, dname(), DNS::MX, DNS::INTERNET, ttl, (u16)r.below(100)); default: { Bytes b = r.bytes(1 + r.below(30)); return DNS::resource(n, std::string(b.begin(), b.end()), 99, DNS::INTERNET, ttl); } } };
        for (u32 i = 0; i < na; ++i) d->add_answer(rec());
        for (u32 i = 0; i < nau; ++i) d->add_authority(rec());
        for (u32 i = 0; i < nad; ++i) d->add_additional(rec());
        note("DNS(q" + std::to_string(nq) + ",a" + std::to_string(na) + "," + std::to_string(nau) + "," + std::to_string(nad) + ")");
        return d;
    }
    PDU* dhcp() {
        DHCP* d = new DHCP(); d->opcode((u8)r.below(3)); d->xid((u32)r.edgy(32)); d->secs((u16)r.edgy(16)); d->hops((u8)r.below(4)); d->ciaddr(ip4()); d->yiaddr(ip4()); d->siaddr(ip4()); d->giaddr(ip4()); d->chaddr(mac());
        u32 n = r.below(6);
        for (u32 i = 0; i < n; ++i) switch (r.below(12)) {
            case 0: d->type((DHCP::Flags)(1 + r.below(8))); break; case 1: d->server_identifier(ip4()); break; case 2: d->lease_time((u32)r.edgy(32)); break;
            case 3: d->subnet_mask(ip4()); break; case 4: { std::vector<IPv4Address> v; for (u32 k = r.below(4); k--;) v.push_back(ip4()); if (!v.empty()) d->routers(v); break; }
            case 5: { std::vector<IPv4Address> v; for (u32 k = 1 + r.below(3); k--;) v.push_back(ip4()); d->domain_name_servers(v); break; }
            case 6: d->domain_name(dname()); break; case 7: d->hostname(label(20)); break; case 8: d->requested_ip(ip4()); break; case 9: d->broadcast(ip4()); break;
            case 10: d->renewal_time((u32)r.edgy(32)); break; default: { Bytes b = blob(40); d->add_option(DHCP::option((DHCP::OptionTypes)(60 + r.below(100)), b.begin(), b.end())); } }
        if (r.chance(2, 3)) d->end();
        note("DHCP(" + std::to_string(n) + ")"); return d;
    }
    PDU* dhcpv6() {
        DHCPv6* d = new DHCPv6(); d->msg_type((DHCPv6::MessageType)(1 + r.below(11))); d->transaction_id((u32)r.edgy(24));
        u32 n = r.below(5);
        for (u32 i = 0; i < n; ++i) switch (r.below(8)) {
            case 0: d->elapsed_time((u16)r.edgy(16)); break; case 1: d->preference((u8)r.byte()); break; case 2: d->rapid_commit(); break;
            case 3: { DHCPv6::ia_na_type t; t.id = (u32)r.next(); t.t1 = (u32)r.edgy(32); t.t2 = (u32)r.edgy(32); t.options = blob(20); d->ia_na(t); break; }
            case 4: { std::vector<u16> v; for (u32 k = r.below(5); k--;) v.push_back((u16)r.next()); d->option_request(v); break; }
            case 5: { DHCPv6::status_code_type t; t.code = (u16)r.next(); t.message = label(12); d->status_code(t); break; }
            case 6: d->server_unicast(ip6()); break; default: { Bytes b = blob(30); d->add_option(DHCPv6::option((u16)(100 + r.below(100)), b.begin(), b.end())); } }
        note("DHCPv6(" + std::to_string(n) + ")"); return d;
    }
    PDU* rtp() { RTP* p = new RTP(); p->version(2); p->payload_type((u8)r.below(128)); p->sequence_number((u16)r.edgy(16)); p->timestamp((u32)r.edgy(32)); p->ssrc_id((u32)r.edgy(32)); p->marker_bit(r.below(2));
        for (u32 k = r.below(4); k--;) p->add_csrc_id((u32)r.next());
        if (r.chance(1, 3)) { p->extension_profile((u16)r.next()); for (u32 k = r.below(4); k--;) p->add_extension_data((u32)r.next()); }
        if (r.chance(1, 4)) p->padding_size((u8)(1 + r.below(8)));
        note("RTP"); PDU* in = raw(); p->inner_pdu(in); return p; }
    PDU* app_udp() { switch (r.below(8)) { case 0: return dns(); case 1: return dhcp(); case 2: return dhcpv6(); case 3: return rtp(); case 4: { VXLAN* v = new VXLAN((u32)r.edgy(24)); note("VXLAN"); v->inner_pdu(ethernet(2)); return v; } default: return raw(); } }

    // ---- transport ------------------------------------------------------------------------------
    PDU* tcp() {
        TCP* t = new TCP((u16)r.edgy(16), (u16)r.edgy(16)); t->seq((u32)r.edgy(32)); t->ack_seq((u32)r.edgy(32)); t->window((u16)r.edgy(16)); t->urg_ptr((u16)r.edgy(16)); t->flags((u16)r.below(0x200));
        u32 n = r.below(5); u32 used = 0;
        for (u32 i = 0; i < n && used < 28; ++i) switch (r.below(9)) {
            case 0: t->mss((u16)r.edgy(16)); used += 4; break; case 1: t->winscale((u8)r.below(15)); used += 3; break; case 2: t->sack_permitted(); used += 2; break;
            case 3: { std::vector<u32> v; for (u32 k = 2 * (1 + r.below(2)); k--;) v.push_back((u32)r.next()); t->sack(v); used += 2 + 4 * v.size(); break; }
            case 4: t->timestamp((u32)r.next(), (u32)r.next()); used += 10; break; case 5: t->altchecksum((TCP::AltChecksums)r.below(3)); used += 3; break;
            case 6: t->add_option(TCP::option(TCP::NOP)); used += 1; break;
            case 7: { Bytes b = r.bytes(1 + r.below(6)); t->add_option(TCP::option((TCP::OptionTypes)(9 + r.below(200)), b.begin(), b.end())); used += 2 + b.size(); break; }
            default: if (!avoid_known) { t->add_option(TCP::option((TCP::OptionTypes)(9 + r.below(200)))); used += 2; } }
        note("TCP(o" + std::to_string(n) + ")");
        if (r.chance(5, 6)) t->inner_pdu(raw());
        return t;
    }
    PDU* udp() { UDP* u = new UDP((u16)r.edgy(16), (u16)r.edgy(16)); note("UDP"); if (r.chance(9, 10)) u->inner_pdu(app_udp()); return u; }
    PDU* icmp() {
        ICMP* c = new ICMP(); u32 k = r.below(8);
        switch (k) { case 0: c->set_echo_request((u16)r.edgy(16), (u16)r.edgy(16)); break; case 1: c->set_echo_reply((u16)r.edgy(16), (u16)r.edgy(16)); break;
            case 2: c->type(ICMP::TIMESTAMP_REQUEST); c->id((u16)r.next()); c->sequence((u16)r.next()); c->original_timestamp((u32)r.next()); c->receive_timestamp((u32)r.next()); c->transmit_timestamp((u32)r.next()); break;
            case 3: c->type(ICMP::ADDRESS_MASK_REQUEST); c->address_mask(ip4()); break; case 4: c->set_dest_unreachable(); c->code((u8)r.below(16)); break;
            case 5: c->set_time_exceeded(r.below(2)); break; case 6: c->set_redirect((u8)r.below(4), ip4()); break; default: c->type((ICMP::Flags)r.below(20)); c->code((u8)r.byte()); }
        note("ICMP(" + std::to_string(k) + ")");
        bool err = (k >= 4 && k <= 6);
        if (err) { Bytes b = r.bytes(r.chance(1, 2) ? 28 + r.below(8) : 100 + r.below(80)); c->inner_pdu(new RawPDU(b.data(), (u32)b.size()));
            if (k != 6 && r.chance(1, 2)) { c->extensions() = ext_struct(); c->use_length_field(b.size() > 128 ? true : r.below(2)); } }       // without the length field an extension can only sit at offset 128 (RFC 4884 5.5): a longer quoted datagram needs the field      // RFC 4884 extensions exist for types 3, 11, 12 only (a redirect has none: parsers do not look for them)
        else if (r.chance(2, 3) && k != 2 && k != 3) c->inner_pdu(raw());
        return c;
    }
    // RFC 4884 extension structure; one time in three its content is solved so that the structure's checksum comes out as 0x0000
    // (the boundary value of one's complement checksums: writers and validators tend to disagree exactly there)
    ICMPExtensionsStructure ext_struct() {
        std::vector<ICMPExtension> es; for (u32 i = 1 + r.below(2); i--;) { ICMPExtension e((u8)r.byte(), (u8)r.byte()); e.payload(r.bytes(4 * r.below(4))); es.push_back(e); }
        bool force = r.chance(1, 3);
        if (force) { Bytes p = es.back().payload(); if (p.size() < 4) p = r.bytes(4 + 4 * r.below(3)); p[p.size() - 2] = 0; p[p.size() - 1] = 0; es.back().payload(p);
            ICMPExtensionsStructure t; for (auto& e : es) t.add_extension(e); Bytes y = t.serialize(); p[p.size() - 2] = y[2]; p[p.size() - 1] = y[3]; es.back().payload(p); }
        ICMPExtensionsStructure ex; for (auto& e : es) ex.add_extension(e); note(force ? "+ext(checksum=0)" : "+ext"); return ex;
    }
    PDU* icmpv6() {
        static const ICMPv6::Types ts[] = {ICMPv6::ECHO_REQUEST, ICMPv6::ECHO_REPLY, ICMPv6::NEIGHBOUR_SOLICIT, ICMPv6::NEIGHBOUR_ADVERT, ICMPv6::ROUTER_SOLICIT, ICMPv6::ROUTER_ADVERT, ICMPv6::REDIRECT, ICMPv6::DEST_UNREACHABLE, ICMPv6::PACKET_TOOBIG, ICMPv6::MLD2_REPORT, ICMPv6::MGM_QUERY, ICMPv6::TIME_EXCEEDED};
        ICMPv6::Types ty = ts[r.below(12)]; ICMPv6* c = new ICMPv6(ty); c->code((u8)r.below(4));
        if (ty == ICMPv6::ECHO_REQUEST || ty == ICMPv6::ECHO_REPLY) { c->identifier((u16)r.edgy(16)); c->sequence((u16)r.edgy(16)); }
        if (ty == ICMPv6::NEIGHBOUR_SOLICIT || ty == ICMPv6::NEIGHBOUR_ADVERT || ty == ICMPv6::REDIRECT) c->target_addr(ip6());
        if (ty == ICMPv6::REDIRECT) c->dest_addr(ip6());
        if (ty == ICMPv6::ROUTER_ADVERT) { c->hop_limit(r.byte()); c->router_lifetime((u16)r.next()); c->reachable_time((u32)r.next()); c->retransmit_timer((u32)r.next()); }
        if (ty == ICMPv6::MLD2_REPORT) { ICMPv6::multicast_address_records_list l; for (u32 i = r.below(3); i--;) { ICMPv6::multicast_address_record m; m.type = (u8)(1 + r.below(6)); m.multicast_address = ip6(); for (u32 k = r.below(3); k--;) m.sources.push_back(ip6()); m.aux_data = r.bytes(4 * r.below(3));   /* whole words only: the wire length field counts 32-bit words (see c02 for ragged lengths) */ l.push_back(m); } c->multicast_address_records(l); }
        if (ty == ICMPv6::MGM_QUERY) { c->multicast_addr(ip6()); c->maximum_response_code((u16)r.next()); c->qrv((u8)r.below(8)); c->qqic(r.byte()); }
        bool nd = (ty >= ICMPv6::ROUTER_SOLICIT && ty <= ICMPv6::REDIRECT);
        u32 n = nd ? r.below(4) : 0;
        for (u32 i = 0; i < n; ++i) switch (r.below(8)) {
            case 0: c->source_link_layer_addr(mac()); break; case 1: c->target_link_layer_addr(mac()); break;
            case 2: { ICMPv6::prefix_info_type p((u8)r.below(129), r.below(2), r.below(2), (u32)r.next(), (u32)r.next(), ip6()); c->prefix_info(p); break; }
            case 3: c->mtu(ICMPv6::mtu_type((u16)r.next(), (u32)r.next())); break;
            case 4: { ICMPv6::recursive_dns_type t; t.lifetime = (u32)r.next(); for (u32 k = 1 + r.below(2); k--;) t.servers.push_back(ip6()); c->recursive_dns_servers(t); break; }
            case 5: { ICMPv6::route_info_type t; t.prefix_len = (u8)r.below(129); t.pref = r.below(4); t.route_lifetime = (u32)r.next(); t.prefix = r.bytes(8 * r.below(3)); c->route_info(t); break; }
            case 6: { Bytes b = r.bytes(6 + 8 * (r.chance(1, 3) ? 30 + r.below(40) : r.below(3))); c->add_option(ICMPv6::option((u8)(40 + r.below(100)), b.begin(), b.end())); break; }   // sometimes >= 256 octets (e.g. redirected header)
            default: c->nonce(r.bytes(6 + 8 * r.below(2))); }
        note("ICMPv6(" + std::to_string((int)ty) + ",o" + std::to_string(n) + ")");
        if ((ty == ICMPv6::DEST_UNREACHABLE || ty == ICMPv6::TIME_EXCEEDED) && r.chance(1, 2)) {     // error message quoting a datagram, with RFC 4884 extensions
            Bytes b = r.bytes(r.chance(1, 2) ? 48 + r.below(16) : 128 + r.below(80)); c->inner_pdu(new RawPDU(b.data(), (u32)b.size())); c->extensions() = ext_struct(); c->use_length_field(b.size() > 128 ? true : r.below(2)); return c; }
        if (!nd && ty != ICMPv6::MLD2_REPORT && ty != ICMPv6::MGM_QUERY && r.chance(2, 3)) c->inner_pdu(raw());
        return c;
    }
    // ---- network -----------------------------------------------------------------------------------
    PDU* ip(int depth) {
        IPv4Address s = ip4(); if ((uint32_t)s == 0) s = IPv4Address("1.1.1.1");
        IP* p = new IP(ip4(), s); p->tos(r.byte()); p->id((u16)r.edgy(16)); p->ttl(r.byte()); p->flags((IP::Flags)(r.chance(1, 3) ? IP::DONT_FRAGMENT : 0));
        u32 n = r.below(4); u32 used = 0;
        for (u32 i = 0; i < n && used < 28; ++i) switch (r.below(6)) {
            case 0: p->add_option(IP::option(IP::option_identifier(IP::NOOP, IP::CONTROL, 0))); used += 1; break;
            case 1: { IP::security_type st; st.security = (u16)r.next(); st.compartments = (u16)r.next(); st.handling_restrictions = (u16)r.next(); st.transmission_control = (u32)r.below(1 << 24); p->security(st); used += 11; break; }
            case 2: { IP::generic_route_option_type g; g.pointer = 4; for (u32 k = 1 + r.below(2); k--;) g.routes.push_back(ip4()); p->record_route(g); used += 3 + 4 * g.routes.size(); break; }
            case 3: p->stream_identifier((u16)r.next()); used += 4; break;
            case 4: { Bytes b = r.bytes(1 + r.below(6)); p->add_option(IP::option(IP::option_identifier((IP::OptionNumber)(10 + r.below(20)), (IP::OptionClass)(r.chance(1, 2) ? IP::CONTROL : IP::MEASUREMENT), r.below(2)), b.begin(), b.end())); used += 2 + b.size(); break; }
            default: if (r.chance(1, 2)) { p->eol(); used += 1; i = n; } }
        note("IP(o" + std::to_string(n) + ")");
        switch (r.below(depth > 0 ? 9 : 7)) { case 0: case 1: p->inner_pdu(tcp()); break; case 2: case 3: p->inner_pdu(udp()); break; case 4: p->inner_pdu(icmp()); break;
            case 5: { Bytes b = r.bytes(1 + r.below(40)); p->protocol((u8)(150 + r.below(100))); p->inner_pdu(new RawPDU(b.data(), (u32)b.size())); note("RawProto"); break; }
            case 6: break;
            case 7: p->inner_pdu(ip(depth - 1)); break; default: p->inner_pdu(ipv6(depth - 1)); }
        return p;
    }
    PDU* ipv6(int depth) {
        IPv6* p = new IPv6(ip6(), ip6()); p->traffic_class(r.byte()); p->flow_label((u32)r.edgy(20)); p->hop_limit(r.byte());
        u32 n = r.below(3);
        for (u32 i = 0; i < n; ++i) { static const u8 hs[] = {IPv6::HOP_BY_HOP, IPv6::DESTINATION_ROUTING_OPTIONS, IPv6::ROUTING, IPv6::FRAGMENT};
            u32 dl; do { dl = 6 + 8 * r.below(3); } while (false);   // data so that 2+data is a multiple of 8 (other lengths: known finding C04)
            if (!avoid_known && r.chance(1, 4)) dl = r.below(30);
            Bytes b(dl, 0); if (r.chance(1, 2)) { b = r.bytes(dl); }
            p->add_header(IPv6::ext_header(hs[r.below(4)], b.begin(), b.end())); }
        note("IPv6(h" + std::to_string(n) + ")");
        switch (r.below(depth > 0 ? 8 : 7)) { case 0: case 1: p->inner_pdu(tcp()); break; case 2: case 3: p->inner_pdu(udp()); break; case 4: p->inner_pdu(icmpv6()); break;
            case 5: { Bytes b = r.bytes(1 + r.below(40)); p->next_header((u8)(150 + r.below(100))); p->inner_pdu(new RawPDU(b.data(), (u32)b.size())); note("RawProto"); if (n) { /* next_header must be set before headers for the chain: re-set */ } break; }
            case 6: break; default: p->inner_pdu(ip(depth - 1)); }
        return p;
    }
    PDU* arp() { ARP* a = new ARP(ip4(), ip4(), mac(), mac()); a->opcode(r.chance(1, 2) ? ARP::REQUEST : ARP::REPLY); note("ARP"); return a; }
    PDU* eapol() {
        if (r.chance(1, 2)) { RSNEAPOL* e = new RSNEAPOL(); e->key_t(r.below(2)); e->key_mic(r.below(2)); e->key_ack(r.below(2)); e->install(r.below(2)); e->replay_counter(r.next()); Bytes n = r.bytes(32); e->nonce(n.data()); Bytes m = r.bytes(16); e->mic(m.data()); e->key(blob(40)); e->wpa_length((u16)r.next()); note("RSNEAPOL"); return e; }
        RC4EAPOL* e = new RC4EAPOL(); e->key_length((u16)r.next()); e->replay_counter(r.next()); Bytes iv = r.bytes(16); e->key_iv(iv.data()); e->key_flag(r.below(2)); e->key_index((u8)r.below(128)); e->key(blob(30)); note("RC4EAPOL"); return e;
    }
    PDU* net(int depth) { switch (r.below(10)) { case 0: return arp(); case 1: return eapol(); case 2: case 3: case 4: return ipv6(depth); default: return ip(depth); } }
    // ---- link ---------------------------------------------------------------------------------------
    PDU* after_ethertype(int depth) {
        switch (r.below(12)) {
            case 0: { Dot1Q* q = new Dot1Q((u16)r.edgy(12), r.below(2)); q->priority((u8)r.below(8)); note("Dot1Q"); q->inner_pdu(r.chance(1, 4) ? after_ethertype(depth) : net(depth)); return q; }
            case 1: { PPPoE* p = new PPPoE(); p->code(r.chance(1, 2) ? 0 : (u8)(r.chance(1, 2) ? 0x09 : 0x65)); p->session_id((u16)r.next()); for (u32 k = r.below(3); k--;) { switch (r.below(3)) { case 0: p->service_name(label(10)); break; case 1: p->ac_name(label(10)); break; default: p->host_uniq(blob(12)); } } note("PPPoE"); return p; }
            case 2: { MPLS* m = new MPLS(); m->label((u32)r.edgy(20)); m->ttl(r.byte()); note("MPLS"); PDU* top = m; MPLS* cur = m; for (u32 k = r.below(3); k--;) { MPLS* m2 = new MPLS(); m2->label((u32)r.edgy(20)); m2->ttl(r.byte()); cur->inner_pdu(m2); cur = m2; } cur->inner_pdu(r.chance(1, 2) ? ip(0) : raw()); return top; }
            case 3: { Bytes b = r.bytes(1 + r.below(60)); note("RawEth"); return new RawPDU(b.data(), (u32)b.size()); }
            default: return net(depth);
        }
    }
    PDU* ethernet(int depth) { EthernetII* e = new EthernetII(mac(), mac()); note("Eth"); if (r.chance(19, 20)) { PDU* in = after_ethertype(depth); bool rawin = dynamic_cast<RawPDU*>(in) != nullptr; e->inner_pdu(in); if (rawin) e->payload_type((u16)(0x9000 + r.below(0x100))); } return e; }
    PDU* dot3() {
        Dot3* d = new Dot3(mac(), mac()); note("Dot3"); LLC* l = new LLC((u8)(r.byte()), (u8)r.byte());
        switch (r.below(3)) { case 0: l->type(LLC::INFORMATION); l->send_seq_number((u8)r.below(128)); l->receive_seq_number((u8)r.below(128)); break; case 1: l->type(LLC::SUPERVISORY); l->supervisory_function((LLC::SupervisoryFunctions)r.below(3)); l->receive_seq_number((u8)r.below(128)); break; default: l->type(LLC::UNNUMBERED); l->modifier_function(LLC::UI); }
        l->poll_final(r.below(2)); d->inner_pdu(l);
        switch (r.below(4)) { case 0: { STP* s = new STP(); s->proto_id((u16)r.next()); s->bpdu_type(r.byte()); s->root_path_cost((u32)r.next()); s->port_id((u16)r.next()); s->msg_age((u16)r.next()); s->max_age((u16)r.next()); s->hello_time((u16)r.next()); s->fwd_delay((u16)r.next()); l->inner_pdu(s); note("STP"); break; }
            case 1: { l->dsap(0xaa); l->ssap(0xaa); SNAP* s = new SNAP(); s->org_code((u32)r.edgy(24)); l->inner_pdu(s); s->inner_pdu(net(0)); note("SNAP"); break; }
            case 2: l->inner_pdu(raw()); break; default: break; }
        return d;
    }
    PDU* dot11_inner(bool data, Dot11Data* dd) { (void)data; SNAP* s = new SNAP(); s->inner_pdu(net(0)); dd->inner_pdu(s); return dd; }
    PDU* dot11() {
        u32 k = r.below(12); PDU* p = nullptr;
        auto base = [&](Dot11* d) { d->addr1(mac()); d->duration_id((u16)r.next()); d->to_ds(r.below(2)); d->from_ds(r.below(2)); d->retry(r.below(2)); d->power_mgmt(r.below(2)); d->more_frag(r.below(2)); d->order(r.below(2)); };
        auto mgmt = [&](Dot11ManagementFrame* m) { base(m); m->addr2(mac()); m->addr3(mac()); m->frag_num((u8)r.below(16)); m->seq_num((u16)r.below(4096));
            for (u32 i = r.below(5); i--;) switch (r.below(9)) { case 0: m->ssid(label(32)); break; case 1: { Dot11ManagementFrame::rates_type v; for (u32 q = 1 + r.below(8); q--;) v.push_back(0.5f * (1 + r.below(100))); m->supported_rates(v); break; }
                case 2: m->ds_parameter_set(r.byte()); break; case 3: { Dot11ManagementFrame::tim_type t; t.dtim_count = r.byte(); t.dtim_period = r.byte(); t.bitmap_control = r.byte(); t.partial_virtual_bitmap = r.bytes(1 + r.below(8)); m->tim(t); break; }
                case 4: m->rsn_information(RSNInformation::wpa2_psk()); break; case 5: { Dot11ManagementFrame::country_params c; c.country = "US "; for (u32 q = 1 + r.below(3); q--;) { c.first_channel.push_back(r.byte()); c.number_channels.push_back(r.byte()); c.max_transmit_power.push_back(r.byte()); } m->country(c); break; }
                case 6: m->power_constraint(r.byte()); break; case 7: m->erp_information(r.byte()); break; default: { Bytes b = blob(20); m->add_option(Dot11::option((u8)(128 + r.below(90)), b.begin(), b.end())); } } };
        switch (k) {
            case 0: { Dot11Beacon* b = new Dot11Beacon(); mgmt(b); b->timestamp(r.next()); b->interval((u16)r.next()); p = b; note("Beacon"); break; }
            case 1: { Dot11ProbeRequest* b = new Dot11ProbeRequest(); mgmt(b); p = b; note("ProbeReq"); break; }
            case 2: { Dot11ProbeResponse* b = new Dot11ProbeResponse(); mgmt(b); b->timestamp(r.next()); b->interval((u16)r.next()); p = b; note("ProbeResp"); break; }
            case 3: { Dot11AssocRequest* b = new Dot11AssocRequest(); mgmt(b); b->listen_interval((u16)r.next()); p = b; note("AssocReq"); break; }
            case 4: { Dot11Authentication* b = new Dot11Authentication(); mgmt(b); b->auth_algorithm((u16)r.next()); b->auth_seq_number((u16)r.next()); b->status_code((u16)r.next()); p = b; note("Auth"); break; }
            case 5: { Dot11Deauthentication* b = new Dot11Deauthentication(); mgmt(b); b->reason_code((u16)r.next()); p = b; note("Deauth"); break; }
            case 6: { Dot11Ack* b = new Dot11Ack(mac()); p = b; note("Ack"); break; }
            case 7: { Dot11RTS* b = new Dot11RTS(mac(), mac()); b->duration_id((u16)r.next()); p = b; note("RTS"); break; }
            case 8: { Dot11BlockAckRequest* b = new Dot11BlockAckRequest(mac(), mac()); b->bar_control((u16)r.below(16)); b->start_sequence((u16)r.below(4096)); b->fragment_number((u8)r.below(16)); p = b; note("BAR"); break; }
            case 9: { Dot11QoSData* b = new Dot11QoSData(mac(), mac()); base(b); b->addr3(mac()); if (b->to_ds() && b->from_ds()) b->addr4(mac()); b->qos_control((u16)r.next()); b->seq_num((u16)r.below(4096)); b->frag_num((u8)r.below(16)); SNAP* s = new SNAP(); s->inner_pdu(net(0)); b->inner_pdu(s); p = b; note("QoSData"); break; }
            default: { Dot11Data* b = new Dot11Data(mac(), mac()); base(b); b->addr3(mac()); if (b->to_ds() && b->from_ds()) b->addr4(mac()); b->seq_num((u16)r.below(4096)); b->frag_num((u8)r.below(16)); if (r.chance(3, 4)) { SNAP* s = new SNAP(); s->inner_pdu(net(0)); b->inner_pdu(s); } else b->inner_pdu(raw()); p = b; note("Data"); }
        }
        return p;
    }
    PDU* radiotap() { RadioTap* t = new RadioTap(); note("RadioTap"); t->inner_pdu(dot11()); return t; }
    PDU* sll() { SLL* s = new SLL(); s->packet_type((u16)r.below(5)); s->lladdr_type((u16)r.next()); s->lladdr_len(6); uint8_t a[8]; for (auto& x : a) x = r.byte(); s->address(SLL::address_type(a)); note("SLL"); s->inner_pdu(net(1)); return s; }
    PDU* loopback() { Loopback* l = new Loopback(); note("Loopback"); l->inner_pdu(r.chance(4, 5) ? ip(1) : ipv6(1)); return l; }

    // A whole packet. `root_kind` (optional out) names the link type: 0 EN10MB, 1 802.3, 2 RADIOTAP, 3 802.11, 4 SLL, 5 NULL, 6 RAW(ip/ipv6)
    PDU* packet(int* root_kind = nullptr) {
        u32 k = r.below(20); int rk; PDU* p;
        if (k < 9) { rk = 0; p = ethernet(1); } else if (k < 11) { rk = 1; p = dot3(); } else if (k < 13) { rk = 2; p = radiotap(); } else if (k < 15) { rk = 3; p = dot11(); }
        else if (k < 16) { rk = 4; p = sll(); } else if (k < 17) { rk = 5; p = loopback(); } else { rk = 6; p = r.chance(1, 2) ? ip(1) : ipv6(1); }
        if (root_kind) *root_kind = rk;
        return p;
    }
};

} // namespace vf
