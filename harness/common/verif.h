// Runtime shared by every monitor program: seeded PRNG, case loop with journal,
// statistics / distinct-signature / sample / violation channels, watchdog, big stack.
// Header-only on purpose (one translation unit per monitor).
#pragma once
#include <cstdint>
#include <cstdio>
#include <cstdlib>
#include <cstring>
#include <string>
#include <vector>
#include <map>
#include <set>
#include <unordered_set>
#include <functional>
#include <typeinfo>
#include <exception>
#include <stdexcept>
#include <atomic>
#include <unistd.h>
#include <fcntl.h>
#include <pthread.h>
#include <signal.h>
#include <time.h>
#include <cxxabi.h>

extern "C" {
size_t __sanitizer_get_current_allocated_bytes() __attribute__((weak));
void __sanitizer_set_death_callback(void (*)(void)) __attribute__((weak));
}

namespace vf {

typedef uint64_t u64; typedef uint32_t u32; typedef uint16_t u16; typedef uint8_t u8;
typedef std::vector<uint8_t> Bytes;

inline u64 splitmix(u64& s) { u64 z = (s += 0x9e3779b97f4a7c15ULL); z = (z ^ (z >> 30)) * 0xbf58476d1ce4e5b9ULL; z = (z ^ (z >> 27)) * 0x94d049bb133111ebULL; return z ^ (z >> 31); }
inline u64 mix(u64 a, u64 b) { u64 s = a * 0x9e3779b97f4a7c15ULL + b + 0x632be59bd9b4e019ULL; return splitmix(s); }
inline u64 fnv(const void* p, size_t n, u64 h = 1469598103934665603ULL) { const u8* b = (const u8*)p; for (size_t i = 0; i < n; ++i) { h ^= b[i]; h *= 1099511628211ULL; } return h; }
inline u64 fnv(const std::string& s, u64 h = 1469598103934665603ULL) { return fnv(s.data(), s.size(), h); }

struct Rng {
    u64 s[2];
    explicit Rng(u64 seed = 1) { u64 x = seed; s[0] = splitmix(x); s[1] = splitmix(x); if (!s[0] && !s[1]) s[0] = 1; }
    u64 next() { u64 a = s[0], b = s[1]; u64 r = a + b; b ^= a; s[0] = ((a << 55) | (a >> 9)) ^ b ^ (b << 14); s[1] = (b << 36) | (b >> 28); return r; }
    u32 below(u32 n) { return n ? (u32)((next() >> 11) % n) : 0; }
    u64 below64(u64 n) { return n ? (next() % n) : 0; }
    u32 range(u32 lo, u32 hi) { return lo + below(hi - lo + 1); }   // inclusive
    bool chance(u32 num, u32 den) { return below(den) < num; }
    u8 byte() { return (u8)(next() >> 32); }
    Bytes bytes(size_t n) { Bytes b(n); for (size_t i = 0; i < n; ++i) b[i] = byte(); return b; }
    template <class T> const T& pick(const std::vector<T>& v) { return v[below((u32)v.size())]; }
    // boundary-heavy value of `bits` width
    u64 edgy(unsigned bits) {
        u64 mx = bits >= 64 ? ~0ULL : ((1ULL << bits) - 1);
        switch (below(10)) {
            case 0: return 0; case 1: return 1 & mx; case 2: return mx; case 3: return mx - 1 > mx ? 0 : (mx ? mx - 1 : 0);
            case 4: return (1ULL << below(bits ? bits : 1)) & mx;
            case 5: return ((1ULL << below(bits ? bits : 1)) - 1) & mx;
            case 6: return (mx >> 1) & mx; case 7: return ((mx >> 1) + 1) & mx;
            default: return next() & mx;
        }
    }
};

inline std::string hex(const u8* p, size_t n, size_t cap = 96) {
    static const char* d = "0123456789abcdef"; std::string s; size_t m = n < cap ? n : cap;
    for (size_t i = 0; i < m; ++i) { s += d[p[i] >> 4]; s += d[p[i] & 15]; }
    if (n > cap) { s += "..(+" + std::to_string(n - cap) + ")"; } return s;
}
inline std::string hex(const Bytes& b, size_t cap = 96) { return hex(b.data(), b.size(), cap); }
inline std::string hexfull(const Bytes& b) { return hex(b.data(), b.size(), (size_t)-1); }
inline Bytes unhex(const std::string& s) { Bytes b; auto v = [](char c) { return c <= '9' ? c - '0' : (c | 32) - 'a' + 10; }; for (size_t i = 0; i + 1 < s.size(); i += 2) b.push_back((u8)(v(s[i]) << 4 | v(s[i + 1]))); return b; }
inline std::string demangle(const char* n) { int st = 0; char* d = abi::__cxa_demangle(n, 0, 0, &st); std::string r = (st == 0 && d) ? d : n; free(d); return r; }
inline std::string jesc(const std::string& s) { std::string o; for (unsigned char c : s) { if (c == '"' || c == '\\') { o += '\\'; o += (char)c; } else if (c < 0x20 || c >= 0x7f) { char b[8]; snprintf(b, sizeof b, "\\u%04x", c); o += b; } else o += (char)c; } return o; }

// Exact-size heap copy: an over-read of one byte lands in ASan's red zone.
struct ExactBuf {
    u8* p; size_t n;
    ExactBuf(const u8* src, size_t len) : p((u8*)malloc(len ? len : 1)), n(len) { if (len) memcpy(p, src, len); if (!len) { /* keep a 1-byte block; callers pass n=0 */ } }
    explicit ExactBuf(const Bytes& b) : ExactBuf(b.data(), b.size()) {}
    ~ExactBuf() { free(p); }
    // pointer such that [ptr, ptr+n) ends exactly at the end of the block
    const u8* data() const { return n ? p : p + 1; }
    ExactBuf(const ExactBuf&) = delete; ExactBuf& operator=(const ExactBuf&) = delete;
};

struct Args {
    u64 seed = 1; u64 start = 0, count = 0, stride = 1; long only = -1; std::string tier = "quick";
    std::string out, journal, mode; int worker = 0; bool verbose = false; u64 budget = 0; int watchdog_s = 120;
    std::map<std::string, std::string> kv;
    std::string get(const std::string& k, const std::string& d = "") const { auto i = kv.find(k); return i == kv.end() ? d : i->second; }
    long geti(const std::string& k, long d) const { auto i = kv.find(k); return i == kv.end() ? d : atol(i->second.c_str()); }
};

struct State {
    Args a; FILE* out = nullptr; int jfd = -1;
    std::map<std::string, u64> stats, maxes;
    std::unordered_set<u64> sigs; size_t sig_cap = 400000;
    std::vector<std::string> samples; size_t sample_cap = 8;
    u64 nviol = 0; std::set<std::string> viol_keys;
    std::atomic<u64> progress{0}; std::atomic<long> cur_case{-1};
    std::string cur_desc; bool flushed = false;
    u64 steps = 0;
    std::vector<void (*)()> finalizers;   // run before the final flush (and on sanitizer death)
};
inline State& st() { static State s; return s; }

inline void cnt(const std::string& k, u64 n = 1) { st().stats[k] += n; }
inline void cnt_max(const std::string& k, u64 v) { u64& m = st().maxes[k]; if (v > m) m = v; }
inline void sig(u64 h) { State& s = st(); if (s.sigs.size() < s.sig_cap) s.sigs.insert(h); }
inline void sig(const std::string& x) { sig(fnv(x)); }
inline void sample(const std::string& text) { State& s = st(); if (s.samples.size() < s.sample_cap) s.samples.push_back(text); }
inline bool want_sample() { State& s = st(); return s.samples.size() < s.sample_cap; }

inline void journal_case(long idx) {
    State& s = st(); s.cur_case = idx; s.progress++;
    if (s.jfd >= 0) { char b[32]; int n = snprintf(b, sizeof b, "%-20ld\n", idx); if (pwrite(s.jfd, b, n, 0) < 0) {} }
}
// Human readable description of the running case (written to the journal so that the
// driver can show it as the witness of a sanitizer abort).
inline void describe_case(const std::string& d) {
    State& s = st(); s.cur_desc = d;
    if (s.a.only >= 0 && s.a.verbose) fprintf(stderr, "[case] %s\n", d.substr(0, 6000).c_str());
    if (s.jfd >= 0) { std::string t = d.substr(0, 60000); t += "\n"; if (ftruncate(s.jfd, 21) < 0) {} if (pwrite(s.jfd, t.data(), t.size(), 21) < 0) {} }
}

inline void flush_out() {
    State& s = st(); if (!s.out) return;
    for (auto& kv : s.stats) fprintf(s.out, "S\t%s\t%llu\n", kv.first.c_str(), (unsigned long long)kv.second);
    for (auto& kv : s.maxes) fprintf(s.out, "M\t%s\t%llu\n", kv.first.c_str(), (unsigned long long)kv.second);
    for (auto& x : s.samples) fprintf(s.out, "X\t%s\n", x.c_str());
    fprintf(s.out, "G");
    for (u64 h : s.sigs) fprintf(s.out, "\t%llx", (unsigned long long)h);
    fprintf(s.out, "\n");
    s.stats.clear(); s.maxes.clear(); s.samples.clear(); s.sigs.clear();
    fflush(s.out);
}
inline void death_cb() { State& s = st(); if (s.flushed) return; s.flushed = true; if (s.out) { fprintf(s.out, "C\t%ld\n", (long)s.cur_case); } for (auto f : s.finalizers) f(); flush_out(); }

// Oracle violation: key = clause/site/discriminator ; continues with the next case.
inline void violation(const std::string& key, const std::string& desc) {
    State& s = st(); s.nviol++;
    bool first = s.viol_keys.insert(key).second;
    if (s.out && (first || s.nviol < 50)) {
        std::string d = desc; for (char& c : d) if (c == '\n' || c == '\t') c = ' ';
        std::string cd = s.cur_desc.substr(0, 4000); for (char& c : cd) if (c == '\n' || c == '\t') c = ' ';
        fprintf(s.out, "V\t%s\t%ld\t%s\t%s\n", key.c_str(), (long)s.cur_case, d.c_str(), cd.c_str()); fflush(s.out);
    }
    if (s.a.verbose || s.a.only >= 0) fprintf(stderr, "ORACLE-VIOLATION key=%s case=%ld :: %s\n", key.c_str(), (long)s.cur_case, desc.c_str());
    cnt("violations");
}

// ---- exception classification -------------------------------------------------------
// Returns the demangled dynamic type of the in-flight exception (call inside catch(...)).
inline std::string current_exception_type() {
    std::type_info* t = abi::__cxa_current_exception_type();
    return t ? demangle(t->name()) : std::string("unknown");
}

// ---- allocation balance -----------------------------------------------------------------
inline size_t live_bytes() { return __sanitizer_get_current_allocated_bytes ? __sanitizer_get_current_allocated_bytes() : 0; }

// ---- step budget (cov flavor) ------------------------------------------------------------
#if defined(VERIF_COV) && !defined(VERIF_NO_COV_CALLBACK)
extern "C" __attribute__((no_sanitize_coverage, used)) void __sanitizer_cov_trace_pc() {
    State& s = st();
    if (++s.steps > s.a.budget && s.a.budget) {
        if (s.out) { fprintf(s.out, "B\t%ld\t%llu\n", (long)s.cur_case, (unsigned long long)s.steps); }
        death_cb(); _exit(77);
    }
}
#endif
inline void steps_reset() { st().steps = 0; }
inline u64 steps_now() { return st().steps; }

inline void* watchdog_main(void*) {
    State& s = st(); u64 last = s.progress; int idle = 0;
    for (;;) {
        sleep(1);
        u64 p = s.progress;
        if (p == last) { if (++idle >= s.a.watchdog_s) { if (s.out) { fprintf(s.out, "H\t%ld\n", (long)s.cur_case); } death_cb(); _exit(78); } }
        else { idle = 0; last = p; }
    }
    return nullptr;
}

typedef std::function<void(long idx, Rng& rng)> CaseFn;
struct Main { int argc; char** argv; CaseFn fn; std::function<void()> init; u64 prop_salt; };

inline void* big_stack_main(void* p) {
    Main* m = (Main*)p; State& s = st();
    if (m->init) m->init();
    auto run_one = [&](long idx) {
        journal_case(idx); s.cur_desc.clear();
        Rng rng(mix(mix(s.a.seed, m->prop_salt), (u64)idx));
        m->fn(idx, rng);
        cnt("cases");
    };
    if (s.a.only >= 0) run_one(s.a.only);
    else for (u64 i = s.a.start; i < s.a.count; i += s.a.stride) run_one((long)i);
    return nullptr;
}

// main loop. argv: --seed N --start A --count B --stride K --only I --tier T --out F --journal F --mode M --k=v...
inline int run(int argc, char** argv, const char* prop, CaseFn fn, std::function<void()> init = nullptr) {
    State& s = st(); Args& a = s.a;
    for (int i = 1; i < argc; ++i) {
        std::string k = argv[i]; auto val = [&]() { return std::string(i + 1 < argc ? argv[++i] : ""); };
        if (k == "--seed") a.seed = strtoull(val().c_str(), 0, 10); else if (k == "--start") a.start = strtoull(val().c_str(), 0, 10);
        else if (k == "--count") a.count = strtoull(val().c_str(), 0, 10); else if (k == "--stride") a.stride = strtoull(val().c_str(), 0, 10);
        else if (k == "--only") a.only = atol(val().c_str()); else if (k == "--tier") a.tier = val();
        else if (k == "--out") a.out = val(); else if (k == "--journal") a.journal = val(); else if (k == "--mode") a.mode = val();
        else if (k == "--worker") a.worker = atoi(val().c_str()); else if (k == "--verbose") a.verbose = true;
        else if (k == "--budget") a.budget = strtoull(val().c_str(), 0, 10); else if (k == "--watchdog") a.watchdog_s = atoi(val().c_str());
        else if (k.rfind("--", 0) == 0 && k.find('=') != std::string::npos) { a.kv[k.substr(2, k.find('=') - 2)] = k.substr(k.find('=') + 1); }
    }
    if (a.stride == 0) a.stride = 1;
    s.out = a.out.empty() ? stdout : fopen(a.out.c_str(), "a");
    if (!s.out) { perror("out"); return 2; }
    if (!a.journal.empty()) s.jfd = open(a.journal.c_str(), O_CREAT | O_WRONLY, 0644);
    if (__sanitizer_set_death_callback) __sanitizer_set_death_callback(death_cb);
    pthread_t wd; pthread_create(&wd, 0, watchdog_main, 0); pthread_detach(wd);
    Main m{argc, argv, fn, init, fnv(std::string(prop))};
    pthread_attr_t at; pthread_attr_init(&at); pthread_attr_setstacksize(&at, (size_t)512 << 20);
    pthread_t th; if (pthread_create(&th, &at, big_stack_main, &m) != 0) { perror("pthread_create"); return 2; }
    pthread_join(th, 0);
    for (auto f : s.finalizers) f();
    fprintf(s.out, "E\t%d\n", a.worker); flush_out(); s.flushed = true;
    if (s.out != stdout) fclose(s.out);
    return 0;
}

} // namespace vf
