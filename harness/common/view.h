// describe(): the canonical "view" of a packet = every public no-argument const getter of
// every layer, generated from the headers of the current tree (gen_tins.inc).
#pragma once
#include "verif.h"
#include <tins/tins.h>
#include <tins/pktap.h>
#include <tins/loopback.h>
#include <tins/tcp_ip/stream_follower.h>
#include <tins/tcp_ip/ack_tracker.h>
#include <tins/tcp_ip/data_tracker.h>
#include <tins/utils/radiotap_parser.h>
#include <tins/utils/radiotap_writer.h>
#include <tins/icmp_extension.h>
#include <tins/offline_packet_filter.h>
#include <type_traits>
#include <utility>
#include <list>

namespace vf {

struct View {
    std::vector<std::pair<std::string, std::string>> kv;
    bool strict_exceptions = true;   // non-Tins exception out of an accessor is a violation
    std::string prefix;
    void add(const std::string& k, const std::string& v) { kv.emplace_back(prefix + k, v); }
    std::string text() const { std::string s; for (auto& p : kv) { s += p.first; s += '='; s += p.second; s += '\n'; } return s; }
    u64 hash() const { u64 h = 1469598103934665603ULL; for (auto& p : kv) { h = fnv(p.first, h); h = fnv(p.second, h); } return h; }
};

inline std::set<std::string>& unprinted_types() { static std::set<std::string> s; return s; }
inline std::map<std::string, u64*>& counters() { static std::map<std::string, u64*> m; return m; }
inline u64& counter(const char* name) { auto& m = counters(); auto it = m.find(name); if (it == m.end()) { it = m.emplace(name, new u64(0)).first; } return *it->second; }

// ---- prototypes of generated printers (must precede the generic templates) ---------------
#define VF_STRUCT_PROTO(Q) void put(std::string& s, const Q& x);
#define VF_CLASS_PROTO(Q, FN) void put(std::string& s, const Q& x);
#define VF_GEN_PROTOS
#include "gen_tins.inc"
#undef VF_GEN_PROTOS

inline void put(std::string& s, const std::string& x) {
    s += '"';
    for (unsigned char c : x) { if (c >= 0x20 && c < 0x7f && c != '"' && c != '\\') s += (char)c; else { char b[8]; snprintf(b, sizeof b, "\\x%02x", c); s += b; } }
    s += '"';
}
inline void put(std::string& s, const char* x) { put(s, std::string(x ? x : "<null>")); }
inline void put(std::string& s, const Tins::IPv4Address& a) { uint32_t v = a; char b[16]; snprintf(b, sizeof b, "ip4:%08x", v); s += b; }
template <size_t N> void put(std::string& s, const Tins::small_uint<N>& x) { s += std::to_string((unsigned long long)(typename Tins::small_uint<N>::repr_type)x); }
template <class A, class B> void put(std::string& s, const std::pair<A, B>& p);
template <class O, class P> void put(std::string& s, const Tins::PDUOption<O, P>& o);
template <class T> void put(std::string& s, const T& x);

template <class T, class = void> struct is_iterable : std::false_type {};
template <class T> struct is_iterable<T, decltype(void(std::declval<const T&>().begin()), void(std::declval<const T&>().end()))> : std::true_type {};

template <class A, class B> void put(std::string& s, const std::pair<A, B>& p) { s += '('; put(s, p.first); s += ','; put(s, p.second); s += ')'; }
template <class O, class P> void put(std::string& s, const Tins::PDUOption<O, P>& o) {
    s += "opt{"; put(s, o.option()); s += ",len="; s += std::to_string(o.data_size()); s += ",lf="; s += std::to_string(o.length_field());
    s += ","; s += hex(o.data_ptr(), o.data_size(), 4096); s += "}";
}
template <class T> void put(std::string& s, const T& x) {
    if constexpr (std::is_same<T, bool>::value) { s += x ? "true" : "false"; }
    else if constexpr (std::is_integral<T>::value) { if constexpr (std::is_signed<T>::value) s += std::to_string((long long)x); else s += std::to_string((unsigned long long)x); }
    else if constexpr (std::is_floating_point<T>::value) { s += std::to_string(x); }
    else if constexpr (std::is_enum<T>::value) { s += std::to_string((long long)(typename std::underlying_type<T>::type)x); }
    else if constexpr (std::is_pointer<T>::value) { s += x ? "<ptr>" : "<null>"; }
    else if constexpr (is_iterable<T>::value) {
        s += '['; bool first = true; size_t n = 0;
        for (auto it = x.begin(); it != x.end(); ++it) { if (!first) s += ','; first = false; put(s, *it); if (++n > 100000) { s += "..."; break; } }
        s += ']';
    }
    else { std::string t = demangle(typeid(T).name()); unprinted_types().insert(t); s += "<unprinted:" + t + ">"; }
}

// ---- one accessor call with exception typing -------------------------------------------------
template <class F> inline void get_one(View& v, const char* name, u64& cnt, F&& f) {
    ++cnt; std::string s;
    try { f(s); }
    catch (const Tins::exception_base& e) { s = "<exc:" + demangle(typeid(e).name()) + ">"; }
    catch (const Tins::value_too_large& e) { s = "<exc:Tins::value_too_large>"; }
    catch (...) {
        std::string t = current_exception_type(); s = "<exc:" + t + ">";
        if (v.strict_exceptions) violation("escaped-exception/" + t + "/accessor:" + name, std::string("accessor ") + name + " threw non-libtins exception " + t);
    }
    v.add(name, s);
}

#define VF_DESCRIBE_BEGIN(FN, Q) inline void FN(const Q& o, View& v) { (void)o; (void)v;
#define VF_GET(Q, L, N) { static u64& c_ = vf::counter(#L "." #N); vf::get_one(v, #L "." #N, c_, [&](std::string& s_) { vf::put(s_, o.N()); }); }
#define VF_DESCRIBE_END() }
#define VF_GEN_DESCRIBE
#include "gen_tins.inc"
#undef VF_GEN_DESCRIBE
inline void describe__none(...) {}

#define VF_MEMBER(N) s += #N "="; put(s, x.N); s += ';';
#define VF_STRUCT_DEF(Q, BODY) inline void put(std::string& s, const Q& x) { (void)x; s += '{'; BODY s += '}'; }
#define VF_GEN_STRUCT_DEFS
#include "gen_tins.inc"
#undef VF_GEN_STRUCT_DEFS
#define VF_CLASS_PUT(Q, FN) inline void put(std::string& s, const Q& x) { View v2; v2.strict_exceptions = false; FN(x, v2); s += '{'; for (auto& p : v2.kv) { s += p.first; s += '='; s += p.second; s += ';'; } s += '}'; }
#define VF_GEN_CLASS_PUT
#include "gen_tins.inc"
#undef VF_GEN_CLASS_PUT

// One layer: class name + generated getters + generic PDU facts.
inline const char* describe_layer(const Tins::PDU& p, View& v) {
    const char* cls = "?";
#define VF_DISPATCH(Q, N, CALLS) if (auto q = dynamic_cast<const Q*>(&p)) { (void)q; cls = #N; v.add("class", #N); CALLS goto done; }
#define VF_GEN_DISPATCH
#include "gen_tins.inc"
#undef VF_GEN_DISPATCH
    v.add("class", "<unknown:" + demangle(typeid(p).name()) + ">");
done:
    { static u64& c1 = counter("PDU.size"); static u64& c2 = counter("PDU.pdu_type");
      get_one(v, "PDU.size", c1, [&](std::string& s) { put(s, p.size()); });
      get_one(v, "PDU.pdu_type", c2, [&](std::string& s) { put(s, (int)p.pdu_type()); }); }
    return cls;
}

// Whole chain, prefixing keys with the layer index.
inline std::string describe_chain(const Tins::PDU& root, View& v) {
    std::string chain; int i = 0;
    for (const Tins::PDU* p = &root; p; p = p->inner_pdu(), ++i) {
        v.prefix = std::to_string(i) + ":";
        const char* c = describe_layer(*p, v);
        if (i) chain += '/'; chain += c;
        if (i > 20000) break;
    }
    v.prefix.clear();
    return chain;
}

// accessor call counters -> stats (call once at the end of a worker)
inline void dump_counters(const char* prefix = "acc:") {
    for (auto& kv : counters()) if (*kv.second) { cnt(std::string(prefix) + kv.first, *kv.second); *kv.second = 0; }
    for (auto& t : unprinted_types()) cnt("unprinted:" + t);
}

} // namespace vf
