// describe(): the canonical "view" of a packet = every public no-argument const getter of
// every layer, generated from the headers of the current tree (gen_tins.inc).
#pragma once
// Light header: declarations only. Definitions (heavy, generated) live in view_impl.cpp, compiled once per flavor.
#include "verif.h"
#include <tins/tins.h>
#include <tins/pktap.h>
#include <tins/loopback.h>
#include <tins/tcp_ip/stream_follower.h>
#include <tins/tcp_ip/ack_tracker.h>
#include <tins/tcp_ip/data_tracker.h>
#include <tins/utils/radiotap_parser.h>
#include <tins/utils/radiotap_writer.h>
#include <tins/icmp_extension.h>
#include <tins/offline_packet_filter.h>
#include <type_traits>
#include <utility>
#include <list>

namespace vf {

struct View {
    std::vector<std::pair<std::string, std::string>> kv;
    bool strict_exceptions = true;   // non-Tins exception out of an accessor is a violation
    std::string prefix;
    void add(const std::string& k, const std::string& v) { kv.emplace_back(prefix + k, v); }
    std::string text() const { std::string s; for (auto& p : kv) { s += p.first; s += '='; s += p.second; s += '\n'; } return s; }
    u64 hash() const { u64 h = 1469598103934665603ULL; for (auto& p : kv) { h = fnv(p.first, h); h = fnv(p.second, h); } return h; }
};

inline std::set<std::string>& unprinted_types() { static std::set<std::string> s; return s; }
inline std::map<std::string, u64*>& counters() { static std::map<std::string, u64*> m; return m; }
inline u64& counter(const char* name) { auto& m = counters(); auto it = m.find(name); if (it == m.end()) { it = m.emplace(name, new u64(0)).first; } return *it->second; }


// prototypes of the generated per-class describe functions
#define VF_DESCRIBE_BEGIN(FN, Q) void FN(const Q& o, View& v);
#define VF_GET(Q, L, N)
#define VF_DESCRIBE_END()
#define VF_GEN_DESCRIBE
#include "gen_tins.inc"
#undef VF_GEN_DESCRIBE
#undef VF_DESCRIBE_BEGIN
#undef VF_GET
#undef VF_DESCRIBE_END
inline void describe__none(...) {}

const char* describe_layer(const Tins::PDU& p, View& v);
std::string describe_chain(const Tins::PDU& root, View& v);
void dump_counters(const char* prefix = "acc:");

} // namespace vf
