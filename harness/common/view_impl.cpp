// Definitions of the generated describe machinery; compiled once per flavor and linked into every
// monitor that includes view.h.
#define VERIF_NO_COV_CALLBACK 1
#include "view_put.h"
namespace vf {
#define VF_DESCRIBE_BEGIN(FN, Q) void FN(const Q& o, View& v) { (void)o; (void)v;
#define VF_GET(Q, L, N) { static u64& c_ = vf::counter(#L "." #N); vf::get_one(v, #L "." #N, c_, [&](std::string& s_) { vf::put_named(s_, #L "." #N, o.N()); }); }
#define VF_DESCRIBE_END() }
#define VF_GEN_DESCRIBE
#include "gen_tins.inc"
#undef VF_GEN_DESCRIBE

#define VF_MEMBER(N) s += #N "="; put(s, x.N); s += ';';
#define VF_STRUCT_DEF(Q, BODY) void put(std::string& s, const Q& x) { (void)x; s += '{'; BODY s += '}'; }
#define VF_GEN_STRUCT_DEFS
#include "gen_tins.inc"
#undef VF_GEN_STRUCT_DEFS
#define VF_CLASS_PUT(Q, FN) void put(std::string& s, const Q& x) { View v2; v2.strict_exceptions = false; FN(x, v2); s += '{'; for (auto& p : v2.kv) { s += p.first; s += '='; s += p.second; s += ';'; } s += '}'; }
#define VF_GEN_CLASS_PUT
#include "gen_tins.inc"
#undef VF_GEN_CLASS_PUT

// One layer: class name + generated getters + generic PDU facts.
const char* describe_layer(const Tins::PDU& p, View& v) {
    const char* cls = "?";
#define VF_DISPATCH(Q, N, CALLS) if (auto q = dynamic_cast<const Q*>(&p)) { (void)q; cls = #N; v.add("class", #N); CALLS goto done; }
#define VF_GEN_DISPATCH
#include "gen_tins.inc"
#undef VF_GEN_DISPATCH
    v.add("class", "<unknown:" + demangle(typeid(p).name()) + ">");
done:
    { static u64& c1 = counter("PDU.size"); static u64& c2 = counter("PDU.pdu_type");
      get_one(v, "PDU.size", c1, [&](std::string& s) { put(s, p.size()); });
      get_one(v, "PDU.pdu_type", c2, [&](std::string& s) { put(s, (int)p.pdu_type()); }); }
    return cls;
}

// Whole chain, prefixing keys with the layer index.
std::string describe_chain(const Tins::PDU& root, View& v) {
    std::string chain; int i = 0;
    for (const Tins::PDU* p = &root; p; p = p->inner_pdu(), ++i) {
        v.prefix = std::to_string(i) + ":";
        const char* c = describe_layer(*p, v);
        if (i) chain += '/'; chain += c;
        if (i > 20000) break;
    }
    v.prefix.clear();
    return chain;
}

// accessor call counters -> stats (call once at the end of a worker)
void dump_counters(const char* prefix) {
    for (auto& kv : counters()) if (*kv.second) { cnt(std::string(prefix) + kv.first, *kv.second); *kv.second = 0; }
    for (auto& t : unprinted_types()) cnt("unprinted:" + t);
}

static void dump_counters_fin() { dump_counters(); }
static const bool counters_registered_ = (st().finalizers.push_back(&dump_counters_fin), true);

} // namespace vf
