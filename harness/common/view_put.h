// Generic value printers (put) + generated struct/class printers' prototypes. Heavy: include only where needed.
#pragma once
#include "view.h"
namespace vf {
// ---- prototypes of generated printers (must precede the generic templates) ---------------
#define VF_STRUCT_PROTO(Q) void put(std::string& s, const Q& x);
#define VF_CLASS_PROTO(Q, FN) void put(std::string& s, const Q& x);
#define VF_GEN_PROTOS
#include "gen_tins.inc"
#undef VF_GEN_PROTOS

inline void put(std::string& s, const std::string& x) {
    s += '"';
    for (unsigned char c : x) { if (c >= 0x20 && c < 0x7f && c != '"' && c != '\\') s += (char)c; else { char b[8]; snprintf(b, sizeof b, "\\x%02x", c); s += b; } }
    s += '"';
}
inline void put(std::string& s, const char* x) { put(s, std::string(x ? x : "<null>")); }
inline void put(std::string& s, const Tins::IPv4Address& a) { uint32_t v = a; char b[16]; snprintf(b, sizeof b, "ip4:%08x", v); s += b; }
template <size_t N> void put(std::string& s, const Tins::small_uint<N>& x) { s += std::to_string((unsigned long long)(typename Tins::small_uint<N>::repr_type)x); }
template <class A, class B> void put(std::string& s, const std::pair<A, B>& p);
template <class O, class P> void put(std::string& s, const Tins::PDUOption<O, P>& o);
template <class T> void put(std::string& s, const T& x);

template <class T, class = void> struct is_iterable : std::false_type {};
template <class T> struct is_iterable<T, decltype(void(std::declval<const T&>().begin()), void(std::declval<const T&>().end()))> : std::true_type {};

template <class A, class B> void put(std::string& s, const std::pair<A, B>& p) { s += '('; put(s, p.first); s += ','; put(s, p.second); s += ')'; }
template <class O, class P> void put(std::string& s, const Tins::PDUOption<O, P>& o) {
    s += "opt{"; put(s, o.option()); s += ",len="; s += std::to_string(o.data_size()); s += ",lf="; s += std::to_string(o.length_field());
    s += ","; s += hex(o.data_ptr(), o.data_size(), 4096); s += "}";
}
template <class T> void put(std::string& s, const T& x) {
    if constexpr (std::is_same<T, bool>::value) { s += x ? "true" : "false"; }
    else if constexpr (std::is_integral<T>::value) { if constexpr (std::is_signed<T>::value) s += std::to_string((long long)x); else s += std::to_string((unsigned long long)x); }
    else if constexpr (std::is_floating_point<T>::value) { s += std::to_string(x); }
    else if constexpr (std::is_enum<T>::value) { s += std::to_string((long long)(typename std::underlying_type<T>::type)x); }
    else if constexpr (std::is_pointer<T>::value) { s += x ? "<ptr>" : "<null>"; }
    else if constexpr (is_iterable<T>::value) {
        s += '['; bool first = true; size_t n = 0;
        for (auto it = x.begin(); it != x.end(); ++it) { if (!first) s += ','; first = false; put(s, *it); if (++n > 100000) { s += "..."; break; } }
        s += ']';
    }
    else { std::string t = demangle(typeid(T).name()); unprinted_types().insert(t); s += "<unprinted:" + t + ">"; }
}

// ---- getters that return a pointer to a fixed-size array inside the object: rendered through a (name -> length) table
inline size_t fixed_array_len(const std::string& name) {
    static const std::map<std::string, size_t> t = {{"BootP.file", 128}, {"BootP.sname", 64}, {"DHCP.file", 128}, {"DHCP.sname", 64}, {"Dot11BlockAck.bitmap", (size_t)Tins::Dot11BlockAck::bitmap_size},
        {"RC4EAPOL.key_iv", (size_t)Tins::RC4EAPOL::key_iv_size}, {"RC4EAPOL.key_sign", (size_t)Tins::RC4EAPOL::key_sign_size}, {"RSNEAPOL.id", (size_t)Tins::RSNEAPOL::id_size}, {"RSNEAPOL.key_iv", (size_t)Tins::RSNEAPOL::key_iv_size},
        {"RSNEAPOL.mic", (size_t)Tins::RSNEAPOL::mic_size}, {"RSNEAPOL.nonce", (size_t)Tins::RSNEAPOL::nonce_size}, {"RSNEAPOL.rsc", (size_t)Tins::RSNEAPOL::rsc_size}};
    auto it = t.find(name); return it == t.end() ? 0 : it->second;
}
template <class T> void put_named(std::string& s, const char* name, const T& x) {
    if constexpr (std::is_same<T, const uint8_t*>::value || std::is_same<T, uint8_t*>::value) { size_t n = fixed_array_len(name); if (n && x) { s += "arr:"; s += hex(x, n, 4096); return; } }
    put(s, x);
}

// ---- one accessor call with exception typing -------------------------------------------------
template <class F> inline void get_one(View& v, const char* name, u64& cnt, F&& f) {
    ++cnt; std::string s;
    try { f(s); }
    catch (const Tins::exception_base& e) { s = "<exc:" + demangle(typeid(e).name()) + ">"; }
    catch (const Tins::value_too_large& e) { s = "<exc:Tins::value_too_large>"; }
    catch (...) {
        std::string t = current_exception_type(); s = "<exc:" + t + ">";
        if (v.strict_exceptions) violation("escaped-exception/" + t + "/accessor:" + name, std::string("accessor ") + name + " threw non-libtins exception " + t);
    }
    v.add(name, s);
}


} // namespace vf
